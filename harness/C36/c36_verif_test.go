//go:build verif

package bfe_http2

// C36 — the HTTP/2 priority tree stays acyclic and priority processing terminates.
//
// Engine E3 (explicit-state). A state is the vector (status, parent) of n client streams
// (ids 1,3,..,2n-1; status idle/open/closed; parent = nil or one of the n stream objects), read
// from the real *stream objects and the real streams map. Operations are what a client can make
// the server do to that tree:
//   P  PRIORITY frame for any of the n ids (idle, open or closed)  -> real sc.processPriority
//   H  HEADERS opening a new stream (id above every id used so far), with or without a
//      priority param                                             -> the two statements of
//      processHeaders that touch the tree: streams[id]=st; adjustStreamPriority(...)
//   R  the stream ends (RST_STREAM / response done)                -> delete(streams,id), which
//      is what closeStream does to the tree (other streams keep pointing at the object)
// with dependency in {0, each of the n ids (self, open, closed, idle), an id that never exists}
// and exclusive in {false,true}.
//
// Part A: BFS to closure from the empty connection; every new state's shortest history is
//         re-executed on fresh objects and must give the same vector (the rebuilt state is the
//         real state).
// Part B: larger sizes, sharded: every acyclic vector of the domain is reached by a real history
//         built for it (and checked to arrive exactly there), then every operation is applied
//         from it; successors must again be acyclic, i.e. in the domain (closure). Part A shows
//         reachable set == domain for the sizes it covers.
// Part C: the same histories through the real frame path of a real serverConn: bytes ->
//         Framer.ReadFrame -> sc.processFrame (processHeaders / processPriority /
//         processResetStream -> closeStream); must agree with Part A's vectors.
//
// Oracle (exactly the statement): after every operation, following parent from any stream that
// ever existed reaches nil within n steps (own step-bounded walk, done before bfe sees the state
// again: a cyclic state is reported and never expanded), and every operation returns (liveness
// watchdog: an operation in flight for 20 s is reported as non-terminating).

import (
	"bytes"
	"fmt"
	"io"
	"net"
	"os"
	"strconv"
	"strings"
	"sync/atomic"
	"testing"
	"time"

	"github.com/baidu/go-lib/gotrack"
	http "github.com/bfenetworks/bfe/bfe_http"
	"github.com/bfenetworks/bfe/bfe_http2/hpack"
	"github.com/bfenetworks/bfe/verifkit/vk"
)

const c36maxN = 7

type c36op struct {
	kind byte // 'P', 'H', 'R'
	s    int  // stream index; id = 2*s+1
	prio bool // H only: HEADERS carries a priority param
	dep  int  // 0 = stream 0; 1..n = stream index dep-1; n+1 = id that never exists
	excl bool
}

func c36id(s int) uint32 { return uint32(2*s + 1) }

func c36depID(n, dep int) uint32 {
	if dep == 0 {
		return 0
	}
	return c36id(dep - 1) // dep == n+1 gives 2n+1, never opened
}

func (o c36op) str(n int) string {
	s := string(o.kind) + strconv.Itoa(int(c36id(o.s)))
	if o.kind == 'P' || (o.kind == 'H' && o.prio) {
		s += ">" + strconv.Itoa(int(c36depID(n, o.dep)))
		if o.excl {
			s += "x"
		}
	}
	return s
}

func c36histStr(n int, h []c36op) string {
	ss := make([]string, len(h))
	for i, o := range h {
		ss[i] = o.str(n)
	}
	return strings.Join(ss, ";")
}

func c36parseHist(n int, s string) []c36op {
	var h []c36op
	if s == "" {
		return h
	}
	for _, t := range strings.Split(s, ";") {
		o := c36op{kind: t[0]}
		t = t[1:]
		if strings.HasSuffix(t, "x") {
			o.excl = true
			t = t[:len(t)-1]
		}
		if k := strings.Index(t, ">"); k >= 0 {
			o.prio = true
			d, _ := strconv.Atoi(t[k+1:])
			if d == 0 {
				o.dep = 0
			} else {
				o.dep = (d-1)/2 + 1
			}
			t = t[:k]
		}
		id, _ := strconv.Atoi(t)
		o.s = (id - 1) / 2
		h = append(h, o)
	}
	return h
}

func c36ops(n int) []c36op {
	var ops []c36op
	for s := 0; s < n; s++ {
		ops = append(ops, c36op{kind: 'H', s: s})
		for dep := 0; dep <= n+1; dep++ {
			for _, x := range []bool{false, true} {
				ops = append(ops, c36op{kind: 'H', s: s, prio: true, dep: dep, excl: x})
				ops = append(ops, c36op{kind: 'P', s: s, prio: true, dep: dep, excl: x})
			}
		}
		ops = append(ops, c36op{kind: 'R', s: s})
	}
	return ops
}

// ---- the world: real stream objects + real streams map --------------------------------------

const (
	c36idle   = 0
	c36open   = 1
	c36closed = 2
)

type c36world struct {
	n       int
	obj     []*stream
	status  []byte
	streams map[uint32]*stream
	sc      *serverConn
	pf      PriorityFrame
	mark    []int32 // cyclicFast
	stamp   int32
}

func c36newWorld(n int) *c36world {
	w := &c36world{n: n, streams: make(map[uint32]*stream), obj: make([]*stream, n), status: make([]byte, n), mark: make([]int32, n)}
	for i := 0; i < n; i++ {
		w.obj[i] = &stream{id: c36id(i)}
	}
	w.sc = &serverConn{streams: w.streams}
	return w
}

func (w *c36world) load(code uint64) {
	for i := 0; i < w.n; i++ {
		f := (code >> (5 * uint(i))) & 31
		st, p := byte(f&3), int(f>>2)
		if w.status[i] != st {
			if st == c36open {
				w.streams[c36id(i)] = w.obj[i]
			} else if w.status[i] == c36open {
				delete(w.streams, c36id(i))
			}
			w.status[i] = st
		}
		if p == 0 {
			w.obj[i].parent = nil
		} else {
			w.obj[i].parent = w.obj[p-1]
		}
	}
}

// encode reads the vector back from the real objects. full: check every stream's membership in
// the real map; otherwise (PRIORITY ops, which must not touch the map) only its size.
func (w *c36world) encode(full bool) (uint64, bool) {
	var code uint64
	nOpen := 0
	for i := 0; i < w.n; i++ {
		f := uint64(w.status[i])
		if w.status[i] == c36open {
			nOpen++
		}
		if full {
			if st, in := w.streams[c36id(i)]; in != (w.status[i] == c36open) || (in && st != w.obj[i]) {
				return 0, false
			}
		}
		if p := w.obj[i].parent; p != nil {
			j := int(p.id-1) / 2
			if p.id%2 != 1 || j >= w.n || w.obj[j] != p || w.status[i] == c36idle {
				return 0, false
			}
			f |= uint64(j+1) << 2
		}
		code |= f << (5 * uint(i))
	}
	if len(w.streams) != nOpen {
		return 0, false
	}
	return code, true
}

// cyclic: step-bounded ancestor walk from every stream; returns the index of a stream whose
// ancestor chain does not end within n steps, or -1.
func (w *c36world) cyclic() int {
	for i := 0; i < w.n; i++ {
		p := w.obj[i]
		for k := 0; k <= w.n && p != nil; k++ {
			p = p.parent
		}
		if p != nil {
			return i
		}
	}
	return -1
}

// c36cyclicFast is the same invariant in O(n) for the deep trees: every ancestor walk stops at
// nil, at a stream already known to reach nil, or (cycle) at a stream entered during this very
// walk; no walk can take more than n+1 steps. Returns the index of a stream on a cycle or -1.
func c36cyclicFast(obj []*stream, mark []int32, stamp *int32) int {
	base := *stamp
	for i := range obj {
		if obj[i] == nil || mark[i] > base {
			continue
		}
		*stamp++
		cur := *stamp
		p, j := obj[i], i
		for steps := 0; ; steps++ {
			mark[j] = cur
			p = p.parent
			if p == nil {
				break
			}
			j = int(p.id-1) / 2
			if p.id%2 != 1 || j >= len(obj) || obj[j] != p || steps > len(obj) {
				return i // foreign object or over the horizon: not a tree over our streams
			}
			if mark[j] == cur {
				return j
			}
			if mark[j] > base {
				break
			}
		}
	}
	if *stamp > 1<<30 {
		for i := range mark {
			mark[i] = 0
		}
		*stamp = 0
	}
	return -1
}

// cyc picks the walk: the plain step-bounded one for the small worlds, the O(n) one for deep trees.
func (w *c36world) cyc() int {
	if w.n <= c36maxN {
		return w.cyclic()
	}
	return c36cyclicFast(w.obj, w.mark, &w.stamp)
}

func (w *c36world) enabled(o c36op) bool {
	switch o.kind {
	case 'H': // new stream ids are monotonic
		for t := o.s; t < w.n; t++ {
			if w.status[t] != c36idle {
				return false
			}
		}
		return true
	case 'R':
		return w.status[o.s] == c36open
	}
	return true
}

// classes of an operation relative to the state it is applied in (outcome vocabulary and the
// "input class" part of violation signatures).
var c36classNames = []string{"stream-idle", "stream-closed", "no-priority", "dep=self", "dep=0", "dep=never-existed",
	"dep=idle", "dep=closed", "dep=open-unrelated", "dep=open-descendant", "close"}

const c36nClass = 11

func (w *c36world) classify(o c36op) int {
	switch o.kind {
	case 'R':
		return 10
	case 'P':
		if w.status[o.s] == c36idle {
			return 0
		}
		if w.status[o.s] == c36closed {
			return 1
		}
	case 'H':
		if !o.prio {
			return 2
		}
	}
	switch {
	case o.dep == 0:
		return 4
	case o.dep == w.n+1:
		return 5
	case o.dep-1 == o.s:
		return 3
	}
	d := o.dep - 1
	if w.status[d] == c36idle {
		return 6
	}
	if w.status[d] == c36closed {
		return 7
	}
	if o.kind == 'P' {
		p := w.obj[d].parent
		for k := 0; k <= w.n && p != nil; k++ {
			if p == w.obj[o.s] {
				return 9
			}
			p = p.parent
		}
	}
	return 8
}

func c36className(o c36op, cls int) string {
	k := map[byte]string{'P': "PRIORITY", 'H': "HEADERS", 'R': "CLOSE"}[o.kind]
	s := k + ":" + c36classNames[cls]
	if o.excl {
		s += ":excl"
	}
	return s
}

// apply runs the real code for one operation.
func (w *c36world) apply(o c36op) {
	pp := PriorityParam{StreamDep: c36depID(w.n, o.dep), Exclusive: o.excl, Weight: 15}
	switch o.kind {
	case 'P':
		w.pf.FrameHeader.StreamID = c36id(o.s)
		w.pf.PriorityParam = pp
		w.sc.processPriority(&w.pf)
	case 'H':
		st := w.obj[o.s]
		st.parent, st.weight = nil, 0
		w.streams[st.id] = st // processHeaders: sc.streams[id] = st
		w.status[o.s] = c36open
		if o.prio { // processHeaders: if f.HasPriority() { adjustStreamPriority(sc.streams, st.id, f.Priority) }
			adjustStreamPriority(w.streams, st.id, pp)
		}
	case 'R':
		delete(w.streams, c36id(o.s)) // closeStream: delete(sc.streams, st.id)
		w.status[o.s] = c36closed
	}
}

// ---- liveness watchdog ------------------------------------------------------------------------
// Context of the operation in flight, kept in plain atomics so that the hot loops do not
// allocate: either (n, state vector, op index into c36ops(n)) or (history, position).

type c36histCtx struct {
	mode string
	n    int
	hist []c36op
}

var (
	c36wdSeq  uint64 // odd while a bfe operation is in flight
	c36wdMode int32  // 0 = state+op, 1 = history
	c36wdN    int32
	c36wdCode uint64
	c36wdOp   int32
	c36wdCls  int32
	c36wdHist atomic.Value // *c36histCtx
)

func c36ctxState(n int, code uint64) {
	atomic.StoreInt32(&c36wdMode, 0)
	atomic.StoreInt32(&c36wdN, int32(n))
	atomic.StoreUint64(&c36wdCode, code)
}

func c36ctxHist(mode string, n int, hist []c36op) {
	c36wdHist.Store(&c36histCtx{mode, n, hist})
	atomic.StoreInt32(&c36wdMode, 1)
}

var c36wdSpace atomic.Value // *c36space of the BFS in progress

func c36ctxBFS(i int32) {
	atomic.StoreInt32(&c36wdMode, 2)
	atomic.StoreUint64(&c36wdCode, uint64(i))
}

func c36ctxOp(i int) { atomic.StoreInt32(&c36wdOp, int32(i)) }

func c36enter(cls int) {
	atomic.StoreInt32(&c36wdCls, int32(cls))
	atomic.AddUint64(&c36wdSeq, 1)
}
func c36leave() { atomic.AddUint64(&c36wdSeq, 1) }

func c36watchdog(r *vk.Run, t *testing.T) {
	var last uint64
	same := 0
	for {
		time.Sleep(2 * time.Second)
		s := atomic.LoadUint64(&c36wdSeq)
		if s%2 == 1 && s == last {
			same++
		} else {
			same = 0
		}
		last = s
		if same >= 10 {
			var o c36op
			var id string
			opi := int(atomic.LoadInt32(&c36wdOp))
			if m := atomic.LoadInt32(&c36wdMode); m == 2 {
				sp := c36wdSpace.Load().(*c36space) // the exploring goroutine is stuck inside bfe: sp is quiescent
				o = sp.ops[opi]
				id = "direct|" + strconv.Itoa(sp.n) + "|" + c36histStr(sp.n, append(sp.path(int32(atomic.LoadUint64(&c36wdCode))), o))
			} else if m == 0 {
				n, code := int(atomic.LoadInt32(&c36wdN)), atomic.LoadUint64(&c36wdCode)
				o = c36ops(n)[opi]
				id = "direct|" + strconv.Itoa(n) + "|" + c36histStr(n, append(c36witness(nil, n, code), o))
			} else if m == 3 || m == 4 {
				c := c36wdDeep.Load().(*c36deepCtx)
				code := atomic.LoadUint64(&c36wdCode)
				var ops []c36op
				if m == 3 {
					ops = c.ops[:code>>32]
				} else {
					ops = []c36op{c.ops[(code>>32)-1]}
					if b := code & 0xffffffff; b > 0 {
						ops = append(ops, c.ops[b-1])
					}
				}
				o = ops[len(ops)-1]
				id = c36deepID(c.shape, c.x, c.d, c.N, ops)
			} else {
				h := c36wdHist.Load().(*c36histCtx)
				o = h.hist[opi]
				switch {
				case strings.HasPrefix(h.mode, "deepframes|"):
					id = h.mode + "|" + h.hist[len(h.hist)-1].str(h.n)
				case strings.HasPrefix(h.mode, "deep|"):
					id = h.mode + "|" // hang while building the tree
				default:
					id = h.mode + "|" + strconv.Itoa(h.n) + "|" + c36histStr(h.n, h.hist[:opi+1])
				}
			}
			sig := "nonterminating:" + c36className(o, int(atomic.LoadInt32(&c36wdCls)))
			r.Violation(sig, id, "the operation did not return within 20 s (every other one takes < 1 ms)")
			r.Finish()
			os.Exit(0)
		}
	}
}

// step = classify + real op + invariant; returns the class and "" or a violation signature.
// The caller has set the watchdog context (c36ctxState/c36ctxHist + c36ctxOp).
func (w *c36world) step(o c36op) (int, string) {
	cls := w.classify(o)
	c36enter(cls)
	w.apply(o)
	c36leave()
	if w.cyc() >= 0 {
		return cls, "cycle:" + c36className(o, cls)
	}
	return cls, ""
}

func (w *c36world) describe() string {
	s := ""
	for i := 0; i < w.n; i++ {
		st := []string{"idle", "open", "closed"}[w.status[i]]
		p := "nil"
		if w.obj[i].parent != nil {
			p = strconv.Itoa(int(w.obj[i].parent.id))
		}
		s += fmt.Sprintf("%d:%s->%s ", c36id(i), st, p)
	}
	return s
}

// runHistory executes hist on fresh objects with the invariant checked after every operation.
// Returns the final vector (valid only if sig=="").
func c36runHistory(n int, hist []c36op, mode string) (code uint64, sig, detail string, err error) {
	w := c36newWorld(n)
	c36ctxHist(mode, n, hist)
	for k, o := range hist {
		if !w.enabled(o) {
			return 0, "", "", fmt.Errorf("op %d (%s) not enabled in %s", k, o.str(n), w.describe())
		}
		c36ctxOp(k)
		if _, sg := w.step(o); sg != "" {
			pre := c36newWorld(n) // the prefix was just seen to be acyclic: safe to run again
			for _, po := range hist[:k] {
				pre.apply(po)
			}
			return 0, sg, fmt.Sprintf("after op %d (%s) on [%s] stream %d is its own ancestor: [%s]", k, o.str(n), pre.describe(), c36id(w.cyc()), w.describe()), nil
		}
	}
	c, ok := w.encode(true)
	if !ok {
		return 0, "", "", fmt.Errorf("state not encodable: %s", w.describe())
	}
	return c, "", "", nil
}

// ---- Part A: BFS to closure -------------------------------------------------------------------

type c36space struct {
	n      int
	ops    []c36op
	codes  []uint64
	pred   []int32
	predOp []int16
	index  map[uint64]int32
}

func (sp *c36space) path(i int32) []c36op {
	var rev []c36op
	for i > 0 {
		rev = append(rev, sp.ops[sp.predOp[i]])
		i = sp.pred[i]
	}
	for a, b := 0, len(rev)-1; a < b; a, b = a+1, b-1 {
		rev[a], rev[b] = rev[b], rev[a]
	}
	return rev
}

type c36stats struct {
	cls     [3][c36nClass][2]int64 // kind, class, excl
	changed int64
	evals   int64
}

func (s *c36stats) note(o c36op, cls int, changed bool) {
	k := 0
	switch o.kind {
	case 'H':
		k = 1
	case 'R':
		k = 2
	}
	x := 0
	if o.excl {
		x = 1
	}
	s.cls[k][cls][x]++
	s.evals++
	if changed {
		s.changed++
	}
}

func (s *c36stats) flush(r *vk.Run, part string) {
	for k, kind := range []byte{'P', 'H', 'R'} {
		for c := 0; c < c36nClass; c++ {
			for x := 0; x < 2; x++ {
				if v := s.cls[k][c][x]; v > 0 {
					r.OutcomeN(c36className(c36op{kind: kind, excl: x == 1}, c), v)
				}
			}
		}
	}
	r.Evals(s.evals)
	r.Transitions(s.evals)
	r.NontrivialN(s.changed)
	r.Add("sum_"+part+"_transitions", s.evals)
	r.Add("sum_"+part+"_parent_vector_changed", s.changed)
}

// report confirms a violating (state, op) by executing the full history on fresh objects.
var c36reported = map[string]int{}

func c36report(r *vk.Run, t *testing.T, n int, hist []c36op, sig string) {
	if c36reported[sig]++; c36reported[sig] > 3 {
		r.Violation(sig, "", "") // already recorded with a confirmed history: only counted
		return
	}
	_, sg, detail, err := c36runHistory(n, hist, "direct")
	id := "direct|" + strconv.Itoa(n) + "|" + c36histStr(n, hist)
	if err != nil || sg != sig {
		r.Cap("harness-inconsistency")
		t.Errorf("C36 harness: violation %s seen on the rebuilt state is not reproduced by history %s (got %q, %v)", sig, id, sg, err)
		return
	}
	r.Violation(sig, id, detail)
}

func c36bfs(r *vk.Run, t *testing.T, n int, count, report bool) *c36space {
	sp := &c36space{n: n, ops: c36ops(n), index: map[uint64]int32{0: 0}, codes: []uint64{0}, pred: []int32{-1}, predOp: []int16{-1}}
	w := c36newWorld(n)
	var st c36stats
	cyclicStates := int64(0)
	c36wdSpace.Store(sp)
	complete := true
	for i := int32(0); int(i) < len(sp.codes); i++ {
		code := sp.codes[i]
		w.load(code)
		c36ctxBFS(i)
		for oi, o := range sp.ops {
			if !w.enabled(o) {
				continue
			}
			c36ctxOp(oi)
			cls, sig := w.step(o)
			if sig != "" {
				cyclicStates++
				st.note(o, cls, true)
				if report {
					c36report(r, t, n, append(sp.path(i), o), sig)
					c36ctxBFS(i)
				}
				w.load(code)
				continue // a cyclic state is never expanded
			}
			nc, ok := w.encode(o.kind != 'P')
			if !ok {
				r.Cap("harness-inconsistency")
				t.Errorf("C36 harness: state not encodable after %s: %s", c36histStr(n, append(sp.path(i), o)), w.describe())
				w.load(code)
				continue
			}
			st.note(o, cls, nc != code)
			if count && n == 3 && cls == 9 && o.excl == (i%2 == 0) {
				ww := c36newWorld(n)
				ww.load(code)
				r.Sample(map[string]interface{}{"n": n, "history": c36histStr(n, sp.path(i)), "state": ww.describe(), "op": o.str(n), "class": c36className(o, cls), "after": w.describe()})
			}
			if _, dup := sp.index[nc]; !dup {
				sp.index[nc] = int32(len(sp.codes))
				sp.codes = append(sp.codes, nc)
				sp.pred = append(sp.pred, i)
				sp.predOp = append(sp.predOp, int16(oi))
			}
			w.load(code)
		}
		if i&1023 == 0 && r.Expired("bfs n="+strconv.Itoa(n)) {
			complete = false
			break
		}
	}
	if !count {
		return sp
	}
	// every state's shortest history, executed on fresh objects from the empty connection, gives
	// exactly that vector: the rebuilt states are real states.
	maxDepth := 0
	for i := range sp.codes {
		if !complete {
			break
		}
		h := sp.path(int32(i))
		if len(h) > maxDepth {
			maxDepth = len(h)
		}
		c, sg, _, err := c36runHistory(n, h, "direct")
		if err != nil || sg != "" || c != sp.codes[i] {
			r.Cap("harness-inconsistency")
			t.Errorf("C36 harness: history %s gives %x (%q,%v), BFS state is %x", c36histStr(n, h), c, sg, err, sp.codes[i])
			break
		}
		r.Traces(1)
	}
	st.flush(r, "bfs")
	r.States(int64(len(sp.codes)))
	dom := c36domainSize(n)
	if !complete {
		r.Set(fmt.Sprintf("bfs_n%d", n), fmt.Sprintf("NOT closed (deadline): %d states seen", len(sp.codes)))
		return sp
	}
	r.Set(fmt.Sprintf("bfs_n%d", n), fmt.Sprintf("closed: %d states (acyclic vectors in the domain: %d), depth %d, cyclic successors %d", len(sp.codes), dom, maxDepth, cyclicStates))
	if cyclicStates == 0 && int64(len(sp.codes)) != dom {
		// not a property matter: Part B relies on reachable == domain; say so if it is not.
		r.Cap(fmt.Sprintf("reachable(%d)!=domain(%d) at n=%d", len(sp.codes), dom, n))
	}
	return sp
}

// ---- Part B: every acyclic vector, reached by a real history, all ops from it ----------------

// enumerate all (status, parent) vectors where non-idle streams form a forest.
func c36enumDomain(n int, f func(code uint64)) {
	var status [c36maxN]int
	var parent [c36maxN]int // 0 nil, j+1
	var rec func(i int)
	acyclic := func() bool {
		for i := 0; i < n; i++ {
			p, k := parent[i], 0
			for p != 0 {
				p = parent[p-1]
				if k++; k > n {
					return false
				}
			}
		}
		return true
	}
	var recP func(i int)
	recP = func(i int) {
		if i == n {
			if !acyclic() {
				return
			}
			var code uint64
			for j := 0; j < n; j++ {
				code |= (uint64(status[j]) | uint64(parent[j])<<2) << (5 * uint(j))
			}
			f(code)
			return
		}
		parent[i] = 0
		recP(i + 1)
		if status[i] == c36idle {
			return
		}
		for j := 0; j < n; j++ {
			if j != i && status[j] != c36idle {
				parent[i] = j + 1
				recP(i + 1)
			}
		}
		parent[i] = 0
	}
	rec = func(i int) {
		if i == n {
			recP(0)
			return
		}
		for s := 0; s < 3; s++ {
			status[i] = s
			rec(i + 1)
		}
	}
	rec(0)
}

func c36domainSize(n int) int64 {
	// sum over k non-idle streams: C(n,k) * 2^k * (k+1)^(k-1) rooted forests
	var tot int64
	for k := 0; k <= n; k++ {
		c := int64(1)
		for j := 0; j < k; j++ {
			c = c * int64(n-j) / int64(j+1)
		}
		f := int64(1)
		for j := 0; j < k-1; j++ {
			f *= int64(k + 1)
		}
		tot += c * (int64(1) << uint(k)) * f
	}
	return tot
}

// witness history for a vector: open the non-idle streams in id order, set parents top-down with
// non-exclusive PRIORITY frames, then end the closed ones.
func c36witness(h []c36op, n int, code uint64) []c36op {
	var status, parent, depth [c36maxN]int
	for i := 0; i < n; i++ {
		f := (code >> (5 * uint(i))) & 31
		status[i], parent[i] = int(f&3), int(f>>2)
	}
	h = h[:0]
	for i := 0; i < n; i++ {
		if status[i] != c36idle {
			h = append(h, c36op{kind: 'H', s: i})
		}
		for p := parent[i]; p != 0; p = parent[p-1] {
			depth[i]++
		}
	}
	for d := 1; d < n; d++ {
		for i := 0; i < n; i++ {
			if depth[i] == d {
				h = append(h, c36op{kind: 'P', s: i, prio: true, dep: parent[i]})
			}
		}
	}
	for i := 0; i < n; i++ {
		if status[i] == c36closed {
			h = append(h, c36op{kind: 'R', s: i})
		}
	}
	return h
}

func c36sweep(r *vk.Run, t *testing.T, n int) {
	ops := c36ops(n)
	w := c36newWorld(n)
	var st c36stats
	idx, mine, bad := 0, int64(0), 0
	stop := false
	var wit []c36op
	c36enumDomain(n, func(code uint64) {
		idx++
		if stop || !r.Mine(idx) {
			return
		}
		if mine&4095 == 0 && r.Expired("sweep n="+strconv.Itoa(n)) {
			stop = true
			return
		}
		mine++
		// reach the vector by a real history from the empty connection
		w.load(0)
		wit = c36witness(wit, n, code)
		c36ctxHist("direct", n, wit)
		for k, o := range wit {
			if !w.enabled(o) {
				bad++
				break
			}
			c36ctxOp(k)
			if _, sig := w.step(o); sig != "" {
				c36report(r, t, n, wit[:k+1], sig)
				return
			}
		}
		if c, ok := w.encode(true); !ok || c != code {
			if bad++; bad < 4 {
				r.Cap("harness-inconsistency")
				t.Errorf("C36 harness: witness history %s arrives at %x, wanted %x", c36histStr(n, wit), c, code)
			}
			return
		}
		c36ctxState(n, code)
		for oi, o := range ops {
			if !w.enabled(o) {
				continue
			}
			c36ctxOp(oi)
			cls, sig := w.step(o)
			if sig != "" {
				st.note(o, cls, true)
				c36report(r, t, n, append(wit, o), sig)
				c36ctxState(n, code)
			} else {
				nc, ok := w.encode(o.kind != 'P')
				if !ok {
					r.Cap("harness-inconsistency")
					t.Errorf("C36 harness: state not encodable after %s", c36histStr(n, append(wit, o)))
				}
				st.note(o, cls, nc != code)
			}
			w.load(code)
		}
	})
	st.flush(r, "sweep")
	r.States(mine)
	r.Traces(mine - int64(bad))
	r.Add("sum_sweep_states", mine)
	r.Set(fmt.Sprintf("sweep_n%d_domain", n), c36domainSize(n))
}

// ---- Part C: the same histories through the real frame path --------------------------------

type c36conn struct{}

func (c36conn) Read(b []byte) (int, error)       { return 0, io.EOF }
func (c36conn) Write(b []byte) (int, error)      { return len(b), nil }
func (c36conn) Close() error                     { return nil }
func (c36conn) LocalAddr() net.Addr              { return &net.TCPAddr{IP: net.IPv4(10, 0, 0, 1), Port: 443} }
func (c36conn) RemoteAddr() net.Addr             { return &net.TCPAddr{IP: net.IPv4(10, 0, 0, 2), Port: 4000} }
func (c36conn) SetDeadline(time.Time) error      { return nil }
func (c36conn) SetReadDeadline(time.Time) error  { return nil }
func (c36conn) SetWriteDeadline(time.Time) error { return nil }

type c36fw struct {
	n       int
	sc      *serverConn
	in      bytes.Buffer
	cf      *Framer
	hbuf    bytes.Buffer
	henc    *hpack.Encoder
	release chan struct{}
	all     []*stream
	mark    []int32
	stamp   int32
}

func c36newFrameWorld(n int) *c36fw {
	fw := &c36fw{n: n, release: make(chan struct{}), all: make([]*stream, n), mark: make([]int32, n)}
	c := c36conn{}
	srv := &Server{}
	sc := &serverConn{
		srv:               srv,
		hs:                &http.Server{},
		conn:              c,
		remoteAddrStr:     c.RemoteAddr().String(),
		bw:                newBufferedWriter(c),
		streams:           make(map[uint32]*stream),
		readFrameCh:       make(chan readFrameResult),
		wantWriteFrameCh:  make(chan frameWriteMsg, 8),
		writeFrameCh:      make(chan frameWriteMsg, 1),
		wroteFrameCh:      make(chan frameWriteResult, 1),
		bodyReadCh:        make(chan bodyReadMsg),
		doneServing:       make(chan struct{}),
		advMaxStreams:     srv.maxConcurrentStreams(nil), // 200, what a default server advertises
		writeSched:        writeScheduler{maxFrameSize: initialMaxFrameSize},
		initialWindowSize: initialWindowSize,
		headerTableSize:   initialHeaderTableSize,
		pushEnabled:       true,
		serveG:            gotrack.NewGoroutineLock(), // all frames are processed on the test goroutine
		sawFirstSettings:  true, // the SETTINGS exchange is not part of this property

		readClientAgainTimeout: defaultReadClientAgainTimeout,
	}
	rel := fw.release
	sc.handler = http.HandlerFunc(func(http.ResponseWriter, *http.Request) { <-rel })
	sc.flow.add(initialWindowSize)
	sc.inflow.add(initialWindowSize)
	sc.hpackEncoder = hpack.NewEncoder(&sc.headerWriteBuf)
	fr := NewFramer(sc.bw, &fw.in)
	fr.ReadMetaHeaders = hpack.NewDecoder(initialHeaderTableSize, nil)
	fr.MaxHeaderListSize = sc.maxHeaderListSize()
	fr.MaxHeaderUriSize = sc.maxHeaderUriSize()
	fr.SetMaxReadFrameSize(srv.maxReadFrameSize())
	sc.framer = fr
	fw.sc = sc
	fw.cf = NewFramer(&fw.in, nil)
	fw.cf.AllowIllegalWrites = true // only so that the writer accepts dependency id 0 (legal on the wire)
	fw.henc = hpack.NewEncoder(&fw.hbuf)
	return fw
}

func (fw *c36fw) done() {
	close(fw.sc.doneServing)
	close(fw.release)
}

// send writes one client frame as bytes, reads it back through the server's Framer and hands it
// to the real processFrame. Returns the error of ReadFrame/processFrame.
func (fw *c36fw) send(o c36op) error {
	pp := PriorityParam{StreamDep: c36depID(fw.n, o.dep), Exclusive: o.excl, Weight: 15}
	var err error
	switch o.kind {
	case 'P':
		err = fw.cf.WritePriority(c36id(o.s), pp)
	case 'H':
		fw.hbuf.Reset()
		for _, kv := range [][2]string{{":method", "GET"}, {":scheme", "https"}, {":path", "/"}, {":authority", "c36.example"}} {
			fw.henc.WriteField(hpack.HeaderField{Name: kv[0], Value: kv[1]})
		}
		p := HeadersFrameParam{StreamID: c36id(o.s), BlockFragment: fw.hbuf.Bytes(), EndStream: true, EndHeaders: true}
		if o.prio {
			p.Priority = pp
		}
		err = fw.cf.WriteHeaders(p)
	case 'R':
		err = fw.cf.WriteRSTStream(c36id(o.s), ErrCodeCancel)
	}
	if err != nil {
		return fmt.Errorf("harness writer: %v", err)
	}
	f, err := fw.sc.framer.ReadFrame()
	if err != nil {
		return err
	}
	err = fw.sc.processFrame(f)
	if o.kind == 'H' && fw.all[o.s] == nil {
		fw.all[o.s] = fw.sc.streams[c36id(o.s)]
	}
	return err
}

func (fw *c36fw) cyclic() int {
	if fw.n > c36maxN {
		return c36cyclicFast(fw.all, fw.mark, &fw.stamp)
	}
	for i := 0; i < fw.n; i++ {
		p := fw.all[i]
		for k := 0; k <= fw.n && p != nil; k++ {
			p = p.parent
		}
		if p != nil {
			return i
		}
	}
	return -1
}

func (fw *c36fw) encode() (uint64, bool) {
	var code uint64
	for i := 0; i < fw.n; i++ {
		st := fw.all[i]
		if st == nil {
			if _, in := fw.sc.streams[c36id(i)]; in {
				return 0, false
			}
			continue
		}
		f := uint64(c36closed)
		if fw.sc.streams[c36id(i)] == st {
			f = c36open
		}
		if p := st.parent; p != nil {
			j := int(p.id-1) / 2
			if p.id%2 != 1 || j >= fw.n || fw.all[j] != p {
				return 0, false
			}
			f |= uint64(j+1) << 2
		}
		code |= f << (5 * uint(i))
	}
	return code, true
}

func (fw *c36fw) describe() string {
	s := ""
	for i := 0; i < fw.n; i++ {
		st := fw.all[i]
		if st == nil {
			s += fmt.Sprintf("%d:idle ", c36id(i))
			continue
		}
		p := "nil"
		if st.parent != nil {
			p = strconv.Itoa(int(st.parent.id))
		}
		s += fmt.Sprintf("%d:%v->%s ", c36id(i), st.state, p)
	}
	return s
}

// c36runFrames executes hist through the frame path; invariant after every frame.
func c36runFrames(n int, hist []c36op) (code uint64, sig, detail string, ferr error, err error) {
	fw := c36newFrameWorld(n)
	defer fw.done()
	shadow := c36newWorld(n) // only for the class name in a signature (pre-state classification)
	c36ctxHist("frames", n, hist)
	for k, o := range hist {
		cls := shadow.classify(o)
		c36ctxOp(k)
		c36enter(cls)
		e := fw.send(o)
		c36leave()
		if e != nil {
			return 0, "", "", e, nil
		}
		if i := fw.cyclic(); i >= 0 {
			return 0, "cycle:" + c36className(o, cls), fmt.Sprintf("frame path: after frame %d (%s) on [%s] stream %d is its own ancestor: [%s]", k, o.str(n), shadow.describe(), c36id(i), fw.describe()), nil, nil
		}
		// keep the shadow in the same state (vector copy, no bfe code involved)
		c, ok := fw.encode()
		if !ok {
			return 0, "", "", nil, fmt.Errorf("frame-path state not encodable after %s: %s", c36histStr(n, hist[:k+1]), fw.describe())
		}
		shadow.load(c)
	}
	c, _ := fw.encode()
	return c, "", "", nil, nil
}

func c36framesPart(r *vk.Run, t *testing.T, n int) {
	sp := c36bfs(r, t, n, false, false)
	w := c36newWorld(n)
	var evals, agree int64
	for i := range sp.codes {
		if !r.Mine(i) {
			continue
		}
		if r.Expired("frames n=" + strconv.Itoa(n)) {
			break
		}
		base := sp.path(int32(i))
		w.load(sp.codes[i])
		for _, o := range sp.ops {
			if !w.enabled(o) {
				continue
			}
			hist := append(append([]c36op{}, base...), o)
			evals++
			code, sig, detail, ferr, err := c36runFrames(n, hist)
			id := "frames|" + strconv.Itoa(n) + "|" + c36histStr(n, hist)
			switch {
			case err != nil:
				r.Cap("harness-inconsistency")
				t.Errorf("C36 harness: %v", err)
			case ferr != nil:
				r.Outcome("frames:rejected:" + fmt.Sprintf("%T", ferr))
				r.Sample(map[string]interface{}{"frames": id, "error": ferr.Error()})
			case sig != "":
				r.Outcome("frames:cyclic")
				r.Violation(sig, id, detail)
			default:
				// cross-check of the harness's direct model of HEADERS/close against the server
				_, dsig := w.step(o)
				dc, _ := w.encode(true)
				w.load(sp.codes[i])
				if dsig != "" || dc != code {
					r.Cap("harness-inconsistency")
					t.Errorf("C36 harness: frame path gives %x, direct path gives %x (%q) for %s", code, dc, dsig, id)
				} else {
					agree++
				}
			}
		}
	}
	r.Evals(evals)
	r.Traces(agree)
	r.OutcomeN("frames:accepted-and-agrees-with-direct", agree)
	r.Add("sum_frames_histories", evals)
}

// ---- Part D: deep and wide trees (structured family, not BFS) -------------------------------
// Chains, stars, chains with a closed middle segment and brooms (chain ending in a star) of d
// streams, d around every power of two / round number up to and beyond the advertised
// SETTINGS_MAX_CONCURRENT_STREAMS (200), built by prioritised HEADERS (plain and exclusive), then
// every PRIORITY (stream i depends on j, i and j in {top, middle, bottom} +-1, 0, unknown id; with
// and without exclusive) and every HEADERS opening one more stream under those, and every pair of
// two such operations in sequence; thorough: additionally every (i,j) of the tree. Same seams,
// same oracle. Any constant in the code larger than the handful of streams of Parts A-C shows here.

var c36shapes = []string{"chain", "star", "chain-closed-middle", "broom"}

// c36shape returns the building history over n streams; the world has N = n+1 stream slots (slot
// n is the not yet opened "one more stream").
func c36shape(shape string, d int, x bool) (hist []c36op, n int) {
	h := func(s, depIdx int) { // depIdx -1 = stream 0
		hist = append(hist, c36op{kind: 'H', s: s, prio: true, dep: depIdx + 1, excl: x})
	}
	switch shape {
	case "chain", "chain-closed-middle":
		n = d
		for k := 0; k < d; k++ {
			h(k, k-1)
		}
		if shape == "chain-closed-middle" {
			for k := d / 3; k < 2*d/3; k++ {
				hist = append(hist, c36op{kind: 'R', s: k})
			}
		}
	case "star":
		n = d + 1
		h(0, -1)
		for k := 1; k <= d; k++ {
			h(k, 0)
		}
	case "broom":
		n = d
		c := (d + 1) / 2
		for k := 0; k < c; k++ {
			h(k, k-1)
		}
		for k := c; k < d; k++ {
			h(k, c-1)
		}
	}
	return hist, n
}

func c36positions(n int) []int {
	var out []int
	seen := map[int]bool{}
	for _, p := range []int{0, 1, 2, n/2 - 1, n / 2, n/2 + 1, n - 3, n - 2, n - 1} {
		if p >= 0 && p < n && !seen[p] {
			seen[p] = true
			out = append(out, p)
		}
	}
	return out
}

// c36deepOps: the operations tried on a built tree of n streams (world size N = n+1).
func c36deepOps(n int) []c36op {
	N := n + 1
	pos := c36positions(n)
	deps := []int{0, N + 1}
	for _, p := range pos {
		deps = append(deps, p+1)
	}
	var ops []c36op
	for _, i := range pos {
		for _, d := range deps {
			ops = append(ops, c36op{kind: 'P', s: i, prio: true, dep: d}, c36op{kind: 'P', s: i, prio: true, dep: d, excl: true})
		}
	}
	ops = append(ops, c36op{kind: 'H', s: n})
	for _, d := range append(deps, n+1) { // n+1 = the new stream itself
		ops = append(ops, c36op{kind: 'H', s: n, prio: true, dep: d}, c36op{kind: 'H', s: n, prio: true, dep: d, excl: true})
	}
	return ops
}

type c36snap struct {
	par    []*stream
	status []byte
}

func (w *c36world) snap(sn *c36snap) {
	sn.par = sn.par[:0]
	for _, o := range w.obj {
		sn.par = append(sn.par, o.parent)
	}
	sn.status = append(sn.status[:0], w.status...)
}

func (w *c36world) restore(sn *c36snap) {
	for i, o := range w.obj {
		o.parent = sn.par[i]
		if w.status[i] != sn.status[i] {
			if sn.status[i] == c36open {
				w.streams[o.id] = o
			} else if w.status[i] == c36open {
				delete(w.streams, o.id)
			}
			w.status[i] = sn.status[i]
		}
	}
}

func (w *c36world) differs(sn *c36snap) bool {
	for i, o := range w.obj {
		if o.parent != sn.par[i] || w.status[i] != sn.status[i] {
			return true
		}
	}
	return false
}

func (w *c36world) mapOK() bool {
	k := 0
	for _, st := range w.status {
		if st == c36open {
			k++
		}
	}
	return k == len(w.streams)
}

// hops from the dependency up to the re-prioritised stream in the current (pre-)state, -1 if the
// stream is not an ancestor of the dependency.
func (w *c36world) hops(o c36op) int {
	if o.dep < 1 || o.dep > w.n || o.dep-1 == o.s {
		return -1
	}
	p := w.obj[o.dep-1]
	for k := 0; k <= w.n && p != nil; k++ {
		if p == w.obj[o.s] {
			return k
		}
		p = p.parent
	}
	return -1
}

type c36deepCtx struct {
	shape string
	x     bool
	d, N  int
	ops   []c36op
}

var c36wdDeep atomic.Value // *c36deepCtx

func c36deepID(shape string, x bool, d, N int, ops []c36op) string {
	return fmt.Sprintf("deep|%s|%v|%d|%s", shape, x, d, c36histStr(N, ops))
}

func (w *c36world) brief(ids ...int) string {
	s := fmt.Sprintf("%d streams;", w.n-1)
	for _, i := range ids {
		if i < 0 || i >= w.n {
			continue
		}
		p := "nil"
		if w.obj[i].parent != nil {
			p = strconv.Itoa(int(w.obj[i].parent.id))
		}
		s += fmt.Sprintf(" %d:%s->%s", c36id(i), []string{"idle", "open", "closed"}[w.status[i]], p)
	}
	return s
}

// c36deepBuild builds the tree with the real code, invariant after every step.
func c36deepBuild(shape string, x bool, d int) (w *c36world, n int, sig string, at int) {
	build, n := c36shape(shape, d, x)
	w = c36newWorld(n + 1)
	c36ctxHist(fmt.Sprintf("deep|%s|%v|%d", shape, x, d), n+1, build) // (a hang while building: history = the prefix)
	for k, o := range build {
		c36ctxOp(k)
		if _, sg := w.step(o); sg != "" {
			return w, n, sg, k
		}
	}
	return w, n, "", -1
}

// c36deepSig adds the depth class to a signature: a break that needs the dependency to be at
// least 8 hops below the stream cannot be seen by Parts A-C and is a different class of defect.
func c36deepSig(sig string, hops int) string {
	if hops >= 8 {
		return sig + ":deep"
	}
	return sig
}

// c36deepRun executes ops on a freshly built tree (replay and confirmation of a violation).
func c36deepRun(shape string, x bool, d int, ops []c36op) (sig, detail string, err error) {
	w, _, sg, at := c36deepBuild(shape, x, d)
	if sg != "" {
		return sg + ":while-building", fmt.Sprintf("building %s(d=%d, exclusive=%v): after HEADERS #%d stream %d is its own ancestor", shape, d, x, at, c36id(w.cyc())), nil
	}
	c36wdDeep.Store(&c36deepCtx{shape, x, d, w.n, ops})
	for k, o := range ops {
		if !w.enabled(o) {
			return "", "", fmt.Errorf("op %s not enabled", o.str(w.n))
		}
		atomic.StoreInt32(&c36wdMode, 3)
		atomic.StoreUint64(&c36wdCode, uint64(k+1)<<32)
		hops := w.hops(o)
		before := w.brief(o.s, o.dep-1)
		if _, sg := w.step(o); sg != "" {
			i := w.cyc()
			return c36deepSig(sg, hops), fmt.Sprintf("%s(d=%d, built with exclusive=%v), op %d %s (dependency %d hops below the stream) on [%s]: stream %d is its own ancestor afterwards [%s]", shape, d, x, k, o.str(w.n), hops, before, c36id(i), w.brief(o.s, o.dep-1, i)), nil
		}
		if !w.mapOK() {
			return "", "", fmt.Errorf("streams map has %d entries after %s", len(w.streams), o.str(w.n))
		}
	}
	return "", "", nil
}

func c36deepReport(r *vk.Run, t *testing.T, shape string, x bool, d, N int, ops []c36op, sig string) {
	if c36reported[sig]++; c36reported[sig] > 3 {
		r.Violation(sig, "", "")
		return
	}
	id := c36deepID(shape, x, d, N, ops)
	sg, detail, err := c36deepRun(shape, x, d, ops)
	if err != nil || sg != sig {
		r.Cap("harness-inconsistency")
		t.Errorf("C36 harness: deep violation %s not reproduced by %s (got %q, %v)", sig, id, sg, err)
		return
	}
	r.Violation(sig, id, detail)
}

func c36deepDepths(r *vk.Run) (depths []int, allPairsUpTo int) {
	depths = []int{1, 2, 3, 4, 5, 7, 8, 9, 15, 16, 17, 31, 32, 33, 49, 50, 51, 63, 64, 65, 99, 100, 101, 102, 127, 128, 129, 149, 150, 151, 198, 199, 200, 201, 202, 255, 256, 257}
	if r.Thorough() {
		depths = nil
		for d := 1; d <= 260; d++ {
			depths = append(depths, d)
		}
		depths = append(depths, 299, 300, 301, 399, 400, 401, 499, 500, 501, 511, 512, 513, 999, 1000, 1001, 1023, 1024, 1025)
		allPairsUpTo = 260
	}
	return
}

func c36deepPart(r *vk.Run, t *testing.T) {
	depths, allPairsUpTo := c36deepDepths(r)
	var st c36stats
	var items, trees int64
	idx := 0
	var s0, s1 c36snap
	for _, shape := range c36shapes {
		for _, x := range []bool{false, true} {
			for _, d := range depths {
				if shape == "chain-closed-middle" && d < 3 {
					continue
				}
				idx++
				if !r.Mine(idx) {
					continue
				}
				if r.Expired("deep trees") {
					st.flush(r, "deep")
					return
				}
				w, n, sig, _ := c36deepBuild(shape, x, d)
				if sig != "" {
					c36deepReport(r, t, shape, x, d, n+1, nil, sig+":while-building")
					continue
				}
				if !w.mapOK() {
					r.Cap("harness-inconsistency")
					t.Errorf("C36 harness: %s d=%d: streams map inconsistent after building", shape, d)
					continue
				}
				trees++
				r.Traces(1)
				N := w.n
				ops := c36deepOps(n)
				ctx := &c36deepCtx{shape: shape, x: x, d: d, N: N, ops: ops}
				c36wdDeep.Store(ctx)
				setctx := func(a, b int) {
					c36wdDeep.Store(ctx)
					atomic.StoreInt32(&c36wdMode, 4)
					atomic.StoreUint64(&c36wdCode, uint64(a+1)<<32|uint64(b+1))
				}
				w.snap(&s0)
				one := func(o c36op, base *c36snap, pre []c36op, a, b int) (ok bool) {
					setctx(a, b)
					hops := -1
					if o.kind == 'P' {
						hops = w.hops(o)
					}
					cls, sg := w.step(o)
					items++
					if sg != "" {
						st.note(o, cls, true)
						c36deepReport(r, t, shape, x, d, N, append(append([]c36op{}, pre...), o), c36deepSig(sg, hops))
						return false
					}
					if !w.mapOK() {
						r.Cap("harness-inconsistency")
						t.Errorf("C36 harness: streams map inconsistent after %s", c36deepID(shape, x, d, N, append(pre, o)))
					}
					st.note(o, cls, w.differs(base))
					return true
				}
				for a, o1 := range ops {
					if one(o1, &s0, nil, a, -1) {
						w.snap(&s1)
						for b, o2 := range ops {
							if !w.enabled(o2) {
								continue
							}
							one(o2, &s1, []c36op{o1}, a, b)
							w.restore(&s1)
						}
					}
					w.restore(&s0)
				}
				if d <= allPairsUpTo { // thorough: every (i, j) of the tree
					for i := 0; i < n; i++ {
						for j := 0; j < n; j++ {
							for _, ex := range []bool{false, true} {
								o := c36op{kind: 'P', s: i, prio: true, dep: j + 1, excl: ex}
								ctx.ops = append(ctx.ops[:len(ops)], o)
								one(o, &s0, nil, len(ops), -1)
								w.restore(&s0)
							}
						}
					}
					ctx.ops = ctx.ops[:len(ops)]
				}
				if d == 101 && shape == "chain" && !x {
					o := c36op{kind: 'P', s: 0, prio: true, dep: n}
					r.Sample(map[string]interface{}{"deep_example": c36deepID(shape, x, d, N, []c36op{o}), "class": c36className(o, w.classify(o)), "hops": w.hops(o)})
				}
			}
		}
	}
	st.flush(r, "deep")
	r.States(trees)
	r.Add("sum_deep_trees_built", trees)
	ds := fmt.Sprint(depths)
	if r.Thorough() {
		ds = "every d in 1..260 and " + fmt.Sprint(depths[260:])
	}
	r.Set("deep_depths", fmt.Sprintf("%s (x 4 shapes x built plain/exclusive); all (i,j) pairs for d<=%d", ds, allPairsUpTo))
}

// Part D through the frame path: chain and star built by real HEADERS frames, one real PRIORITY
// frame (i, j in {top, middle, bottom}), compared with the direct result.
func c36deepFrames(r *vk.Run, t *testing.T) {
	depths, _ := c36deepDepths(r)
	if r.Thorough() {
		depths = []int{1, 2, 3, 5, 8, 16, 17, 31, 32, 33, 50, 63, 64, 65, 99, 100, 101, 102, 127, 128, 129, 150, 198, 199, 200}
	}
	idx := 0
	var evals, agree int64
	for _, shape := range []string{"chain", "star"} {
		for _, x := range []bool{false, true} {
			for _, d := range depths {
				build, n := c36shape(shape, d, x)
				if n > 200 { // a default server refuses the 201st concurrent stream
					continue
				}
				idx++
				if !r.Mine(idx) || r.Expired("deep frames") {
					continue
				}
				tri := []int{0, n / 2, n - 1}
				for _, i := range tri {
					for _, j := range tri {
						for _, ex := range []bool{false, true} {
							o := c36op{kind: 'P', s: i, prio: true, dep: j + 1, excl: ex}
							id := fmt.Sprintf("deepframes|%s|%v|%d|%s", shape, x, d, o.str(n+1))
							evals++
							sig, detail, same, err := c36deepFramesRun(shape, x, d, build, n, o)
							switch {
							case err != nil:
								r.Cap("harness-inconsistency")
								t.Errorf("C36 harness: %s: %v", id, err)
							case sig != "":
								r.Outcome("frames:cyclic")
								r.Violation(sig, id, detail)
							case !same:
								r.Cap("harness-inconsistency")
								t.Errorf("C36 harness: %s: frame path and direct path give different trees", id)
							default:
								agree++
							}
						}
					}
				}
			}
		}
	}
	r.Evals(evals)
	r.Traces(agree)
	r.OutcomeN("frames:deep-tree-accepted-and-agrees-with-direct", agree)
	r.Add("sum_deep_frames_histories", evals)
}

func c36deepFramesRun(shape string, x bool, d int, build []c36op, n int, o c36op) (sig, detail string, same bool, err error) {
	fw := c36newFrameWorld(n + 1)
	defer fw.done()
	w := c36newWorld(n + 1) // direct twin (also gives the pre-state class)
	hist := append(append([]c36op{}, build...), o)
	c36ctxHist(fmt.Sprintf("deepframes|%s|%v|%d", shape, x, d), n+1, hist)
	for k, op := range hist {
		cls := w.classify(op)
		hops := -1
		if k == len(hist)-1 {
			hops = w.hops(op)
		}
		c36ctxOp(k)
		c36enter(cls)
		e := fw.send(op)
		c36leave()
		if e != nil {
			return "", "", false, fmt.Errorf("frame %d (%s) rejected: %v", k, op.str(n+1), e)
		}
		if i := fw.cyclic(); i >= 0 {
			sg := c36deepSig("cycle:"+c36className(op, cls), hops)
			if k < len(build) {
				sg += ":while-building"
			}
			return sg, fmt.Sprintf("frame path, %s(d=%d, exclusive=%v): after frame %d (%s, dependency %d hops below) stream %d is its own ancestor", shape, d, x, k, op.str(n+1), hops, c36id(i)), false, nil
		}
		if _, sg := w.step(op); sg != "" {
			return "", "", false, fmt.Errorf("direct twin cyclic (%s) where the frame path is not, after %s", sg, op.str(n+1))
		}
	}
	for i := 0; i <= n; i++ {
		st := fw.all[i]
		if (st == nil) != (w.status[i] == c36idle) {
			return "", "", false, nil
		}
		if st == nil {
			continue
		}
		var a, b uint32
		if st.parent != nil {
			a = st.parent.id
		}
		if w.obj[i].parent != nil {
			b = w.obj[i].parent.id
		}
		if a != b || (fw.sc.streams[st.id] == st) != (w.status[i] == c36open) {
			return "", "", false, nil
		}
	}
	return "", "", true, nil
}

// ---- entry point --------------------------------------------------------------------------------

func TestVerifC36(t *testing.T) {
	r := vk.Start(t, "C36")
	defer r.Finish()
	go c36watchdog(r, t)

	if r.Replaying() {
		if strings.HasPrefix(r.ReplayCase(), "deep") {
			f := strings.SplitN(r.ReplayCase(), "|", 5)
			if len(f) != 5 || !r.Case(r.ReplayCase()) {
				return
			}
			d, _ := strconv.Atoi(f[3])
			x := f[2] == "true"
			build, n := c36shape(f[1], d, x)
			ops := c36parseHist(n+1, f[4])
			var sig, detail string
			var err error
			if f[0] == "deepframes" && len(ops) == 1 {
				sig, detail, _, err = c36deepFramesRun(f[1], x, d, build, n, ops[0])
			} else {
				sig, detail, err = c36deepRun(f[1], x, d, ops)
			}
			if err != nil {
				t.Errorf("C36 replay: %v", err)
			}
			if sig != "" {
				r.Violation(sig, r.ReplayCase(), detail)
			}
			t.Logf("replay %s: sig=%q %s", r.ReplayCase(), sig, detail)
			return
		}
		parts := strings.SplitN(r.ReplayCase(), "|", 3)
		if len(parts) != 3 || !r.Case(r.ReplayCase()) {
			return
		}
		n, _ := strconv.Atoi(parts[1])
		hist := c36parseHist(n, parts[2])
		var sig, detail string
		var err, ferr error
		if parts[0] == "frames" {
			_, sig, detail, ferr, err = c36runFrames(n, hist)
		} else {
			_, sig, detail, err = c36runHistory(n, hist, "direct")
		}
		if err != nil || ferr != nil {
			t.Errorf("C36 replay: %v %v", err, ferr)
		}
		if sig != "" {
			r.Violation(sig, r.ReplayCase(), detail)
		}
		t.Logf("replay %s: sig=%q %s", r.ReplayCase(), sig, detail)
		return
	}

	nA, nC := 5, r.Pick(3, 4)
	shardI, shards := r.Shard()
	// Part A: BFS to closure for every n up to nA; the largest runs on the last shard. Every shard
	// walks n<=3 first (172 states, counted only by the owner) so that the recorded case of a
	// signature is a shortest history whenever one exists on <=3 streams.
	for n := 1; n <= nA; n++ {
		if mine := r.Mine(n + shards - 1 - nA%shards); mine || n <= 3 {
			c36bfs(r, t, n, mine, true)
		}
	}
	// Part C: frame path.
	c36framesPart(r, t, nC)
	// Part D: deep and wide trees (direct seams, then real frames).
	c36deepPart(r, t)
	c36deepFrames(r, t)
	// Part B: sharded sweep of the whole acyclic domain of the next size(s). Together with the
	// acyclic-successor check this is also a closure argument: the domain contains the empty
	// connection, every vector in it is reached by a real history, every successor is in it.
	c36sweep(r, t, 6)
	bounds := "BFS to closure n<=5 streams; witnessed domain sweep n=6"
	if r.Thorough() {
		// the two largest pieces come last: on a heavily loaded machine they are the ones that may
		// run into the internal deadline (reported as caps, exhaustive=false)
		c36sweep(r, t, 7)
		if shardI == shards-1 {
			c36bfs(r, t, 6, true, true)
		}
		bounds = "BFS to closure n<=6 streams; witnessed domain sweep n=6 and n=7"
	}
	r.Set("bounds", fmt.Sprintf("%s; frame path n=%d; ops per state: PRIORITY x n ids x (n+2) deps x excl, HEADERS (new id) x {no prio, (n+2) deps x excl}, close", bounds, nC))
	if i, _ := r.Shard(); i == 0 {
		r.Sample(map[string]interface{}{"legend": "H<id>[>dep[x]] HEADERS opening stream id (with priority param), P<id>>dep[x] PRIORITY, R<id> stream ended; x = exclusive; state = id:status->parent"})
	}
}
