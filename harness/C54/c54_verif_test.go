//go:build verif

package bfe_server

// C54 — compressed responses decompress to the original body.
//
// Engine E4 (bounded-exhaustive input enumeration against a reference model), driven through
// the REAL response path of mod_compress:
//
//   client bytes -> real conn.serve -> real request parser -> real host/route tables ->
//   real ReverseProxy.ServeHTTP -> (scripted backend, parsed by the real bfe_http.ReadResponse
//   from a fragmenting reader, as the real transport's readLoop does) ->
//   HandleReadResponse callbacks = the real mod_compress (initialised through Module.Init from
//   generated conf files) -> real sendResponse/copyResponse (both ResFlushInterval flavours) ->
//   real HTTP/1 response writer (chunkWriter) -> bytes on the client conn.
//
// conn.serve is run synchronously on an in-memory conn whose input is preloaded (requests, then
// EOF); nothing in the harness races, the output bytes are a function of the case.
//
// Client side / oracle (kept boring): Go's standard net/http.ReadResponse de-frames what is on
// the wire (chunked / Content-Length / close-delimited), compress/gzip and the brotli reader
// decompress it. A probe callback registered after mod_compress tells whether the module
// wrapped the body (res.Body is *mod_compress.GzipFilter / *BrotliFilter). Only then anything
// is judged, and exactly the clauses of the statement:
//   announce  the wire carries Content-Encoding == the coding of the filter that was installed
//   body      the de-framed body decompresses completely (no error, no trailing bytes) to
//             exactly the bytes the backend sent as body; nothing else follows on the wire
//   length    no Content-Length on the wire that differs from the bytes actually delivered
//   accept    the request accepted that coding (RFC 7231 section 5.3.4 reference; values that
//             are not well-formed or that contradict themselves are not judged)
// Responses to HEAD and 1xx/204/304 responses carry no body for the client by definition and are
// not judged, except that nothing the filter produced may follow their head on the wire.

import (
	"bufio"
	"bytes"
	"compress/gzip"
	"encoding/json"
	"errors"
	"fmt"
	"io"
	"net"
	"net/http"
	"os"
	"path/filepath"
	"runtime"
	"strconv"
	"strings"
	"testing"
	"time"

	"github.com/andybalholm/brotli"
	"github.com/baidu/go-lib/web-monitor/web_monitor"

	"github.com/bfenetworks/bfe/bfe_basic"
	"github.com/bfenetworks/bfe/bfe_bufio"
	"github.com/bfenetworks/bfe/bfe_config/bfe_conf"
	"github.com/bfenetworks/bfe/bfe_http"
	"github.com/bfenetworks/bfe/bfe_module"
	"github.com/bfenetworks/bfe/bfe_modules/mod_compress"
	"github.com/bfenetworks/bfe/verifkit/vk"
)

// ------------------------------------------------------------------------------ rules

type c54rule struct {
	cmd string // "GZIP" | "BROTLI" | "" (no rule matches)
	q   int
	f   int
}

func (ru c54rule) name() string {
	switch ru.cmd {
	case "GZIP":
		return fmt.Sprintf("g%df%d", ru.q, ru.f)
	case "BROTLI":
		return fmt.Sprintf("b%df%d", ru.q, ru.f)
	}
	return "none"
}

func (ru c54rule) enc() string {
	switch ru.cmd {
	case "GZIP":
		return "gzip"
	case "BROTLI":
		return "br"
	}
	return ""
}

var c54flushSizes = []int{64, 65, 100, 512, 1024, 4095, 4096}

func c54allRules() []c54rule {
	var out []c54rule
	for _, f := range c54flushSizes {
		for q := -2; q <= 9; q++ {
			out = append(out, c54rule{"GZIP", q, f})
		}
		for q := 0; q <= 11; q++ {
			out = append(out, c54rule{"BROTLI", q, f})
		}
	}
	return out
}

// ------------------------------------------------------------------------------ server

type c54M = map[string]interface{}

func c54write(dir, name string, v interface{}) string {
	p := filepath.Join(dir, name)
	os.MkdirAll(filepath.Dir(p), 0o755)
	var b []byte
	if s, ok := v.(string); ok {
		b = []byte(s)
	} else {
		b, _ = json.MarshalIndent(v, "", " ")
	}
	if err := os.WriteFile(p, b, 0o644); err != nil {
		panic(err)
	}
	return p
}

type c54probe struct {
	bodyType string // %T of res.Body after the module ran
	status   int
}

type c54h struct {
	srv    *BfeServer
	tr     *c54transport
	probes []c54probe
	dump   func(wire []byte) // replay mode: show what the client received
}

// c54newServer builds a real BfeServer with product "p" (host example.org), two clusters that
// differ in ResFlushInterval (path /n... -> -1 = CopyWithoutBuffer, else 0 = io.CopyBuffer), and
// the real mod_compress initialised from generated conf files: one rule per (cmd, quality,
// flush size), selected by the query value r=<rule name>.
func c54newServer(dir string) *c54h {
	os.RemoveAll(dir)
	os.MkdirAll(dir, 0o755)
	clusterConf := c54M{}
	gslb := c54M{}
	table := c54M{}
	for name, flush := range map[string]int{"cbuf": 0, "cnobuf": -1} {
		clusterConf[name] = c54M{
			"BackendConf":  c54M{"TimeoutConnSrv": 2000, "TimeoutResponseHeader": 50000, "MaxIdleConnsPerHost": 0, "RetryLevel": 0},
			"CheckConf":    c54M{"Schem": "tcp", "FailNum": 1000, "CheckInterval": 1000},
			"GslbBasic":    c54M{"CrossRetry": 0, "RetryMax": 0, "HashConf": c54M{"HashStrategy": 0, "HashHeader": "Cookie:UID", "SessionSticky": false}},
			"ClusterBasic": c54M{"TimeoutReadClient": 30000, "TimeoutWriteClient": 60000, "TimeoutReadClientAgain": 30000, "ReqWriteBufferSize": 512, "ReqFlushInterval": 0, "ResFlushInterval": flush, "CancelOnClientClose": false},
		}
		gslb[name] = c54M{"GSLB_BLACKHOLE": 0, "s1": 100}
		table[name] = c54M{"s1": []c54M{{"Addr": "10.0.0.1", "Name": "b1", "Port": 80, "Weight": 1}}}
	}
	rules := []c54M{
		{"Cond": "req_path_prefix_in(\"/n\", false)", "ClusterName": "cnobuf"},
		{"Cond": "default_t()", "ClusterName": "cbuf"},
	}
	cfg := bfe_conf.BfeConfig{}
	bfe_conf.SetDefaultConf(&cfg)
	cfg.Server.HostRuleConf = c54write(dir, "host_rule.data", c54M{"Version": "v", "DefaultProduct": nil, "Hosts": c54M{"tag": []string{"example.org"}}, "HostTags": c54M{"p": []string{"tag"}}})
	cfg.Server.VipRuleConf = c54write(dir, "vip_rule.data", c54M{"Version": "v", "Vips": c54M{}})
	cfg.Server.RouteRuleConf = c54write(dir, "route_rule.data", c54M{"Version": "v", "ProductRule": c54M{"p": rules}})
	cfg.Server.ClusterConf = c54write(dir, "cluster_conf.data", c54M{"Version": "v", "Config": clusterConf})
	cfg.Server.GslbConf = c54write(dir, "gslb.data", c54M{"Clusters": gslb, "Hostname": "", "Ts": "0"})
	cfg.Server.ClusterTableConf = c54write(dir, "cluster_table.data", c54M{"Config": table, "Version": "v"})
	cfg.Server.NameConf = ""
	srv := NewBfeServer(cfg, dir, "verif")
	if err := srv.InitDataLoad(); err != nil {
		panic(fmt.Sprintf("c54newServer: InitDataLoad: %v", err))
	}

	// mod_compress conf: the documented file layout under <confRoot>/mod_compress/
	c54write(dir, "mod_compress/mod_compress.conf", "[basic]\nProductRulePath = mod_compress/compress_rule.data\n\n[log]\nOpenDebug = false\n")
	var crules []c54M
	for _, ru := range c54allRules() {
		crules = append(crules, c54M{
			"Cond":   fmt.Sprintf("req_query_value_in(\"r\", \"%s\", false)", ru.name()),
			"Action": c54M{"Cmd": ru.cmd, "Quality": ru.q, "FlushSize": ru.f},
		})
	}
	c54write(dir, "mod_compress/compress_rule.data", c54M{"Version": "v", "Config": c54M{"p": crules}})
	m := mod_compress.NewModuleCompress()
	if err := m.Init(srv.CallBacks, web_monitor.NewWebHandlers(), dir); err != nil {
		panic(fmt.Sprintf("c54newServer: mod_compress Init: %v", err))
	}

	h := &c54h{srv: srv, tr: &c54transport{}}
	// probe: runs after mod_compress in the same callback list
	err := srv.CallBacks.AddFilter(bfe_module.HandleReadResponse, func(req *bfe_basic.Request, res *bfe_http.Response) int {
		h.probes = append(h.probes, c54probe{bodyType: fmt.Sprintf("%T", res.Body), status: res.StatusCode})
		return bfe_module.BfeHandlerGoOn
	})
	if err != nil {
		panic(err)
	}
	return h
}

// ------------------------------------------------------------------------------ backend

// c54frag delivers scripted fragments; io.EOF comes with the last fragment or alone.
type c54frag struct {
	pieces  [][]byte
	i       int
	eofWith bool
}

func (f *c54frag) Read(p []byte) (int, error) {
	for f.i < len(f.pieces) && len(f.pieces[f.i]) == 0 {
		f.i++
	}
	if f.i >= len(f.pieces) {
		return 0, io.EOF
	}
	n := copy(p, f.pieces[f.i])
	f.pieces[f.i] = f.pieces[f.i][n:]
	if len(f.pieces[f.i]) == 0 {
		f.i++
	}
	if f.eofWith && f.i >= len(f.pieces) {
		return n, io.EOF
	}
	return n, nil
}

type c54transport struct {
	queue []*c54backend
	errs  []string
}

func (t *c54transport) RoundTrip(req *bfe_http.Request) (*bfe_http.Response, error) {
	if len(t.queue) == 0 {
		t.errs = append(t.errs, "no scripted backend answer left")
		return nil, errors.New("c54: no script")
	}
	b := t.queue[0]
	t.queue = t.queue[1:]
	// what the real transport's readLoop does: ReadResponse(pc.br, rc.req)
	br := bfe_bufio.NewReader(&c54frag{pieces: b.pieces(req.Method), eofWith: b.frag.eofWith})
	res, err := bfe_http.ReadResponse(br, req)
	if err != nil {
		t.errs = append(t.errs, "backend script unparsable: "+err.Error())
		return nil, err
	}
	return res, nil
}

// c54fragSpec: how the backend's byte stream reaches bfe.
type c54fragSpec struct {
	hdrSep  bool  // header block delivered in its own read
	k       int   // body part in k-sized pieces (0 = one piece) unless sizes is set
	sizes   []int // explicit piece sizes of the body part (remainder = last piece)
	eofWith bool  // io.EOF together with the last fragment
}

func (f c54fragSpec) id() string {
	s := "j"
	if f.hdrSep {
		s = "s"
	}
	if f.sizes != nil {
		s += "x" + strings.Trim(strings.Replace(fmt.Sprint(f.sizes), " ", ".", -1), "[]")
	} else {
		s += "k" + strconv.Itoa(f.k)
	}
	if f.eofWith {
		s += "E"
	} else {
		s += "e"
	}
	return s
}

type c54backend struct {
	status  int
	framing string   // "cl" | "chunked" | "close" | "h10" | "none" (bodyless: no framing header) | "cl0" | "clN" (bodyless with Content-Length: N)
	chunk   int      // chunk size for chunked framing (0 = one chunk)
	ce      []string // Content-Encoding header lines (nil = absent)
	body    []byte
	frag    c54fragSpec
}

func (b *c54backend) bodyless() bool { return b.status == 204 || b.status == 304 }

// raw returns header block and encoded body of the backend response.
func (b *c54backend) raw(method string) (head, enc []byte) {
	proto := "HTTP/1.1"
	if b.framing == "h10" {
		proto = "HTTP/1.0"
	}
	var sb strings.Builder
	fmt.Fprintf(&sb, "%s %d %s\r\n", proto, b.status, http.StatusText(b.status))
	sb.WriteString("Content-Type: text/plain\r\nX-Backend: 1\r\n")
	for _, v := range b.ce {
		fmt.Fprintf(&sb, "Content-Encoding: %s\r\n", v)
	}
	body := b.body
	switch b.framing {
	case "cl":
		fmt.Fprintf(&sb, "Content-Length: %d\r\n", len(b.body))
	case "clN":
		fmt.Fprintf(&sb, "Content-Length: %d\r\n", len(b.body))
		body = nil
	case "cl0":
		sb.WriteString("Content-Length: 0\r\n")
		body = nil
	case "none":
		body = nil
	case "chunked":
		sb.WriteString("Transfer-Encoding: chunked\r\n")
	case "close":
		sb.WriteString("Connection: close\r\n")
	}
	sb.WriteString("\r\n")
	if method == "HEAD" {
		body = nil
	}
	if b.framing == "chunked" && method != "HEAD" {
		var eb bytes.Buffer
		c := b.chunk
		if c <= 0 {
			c = len(body)
		}
		for off := 0; off < len(body); off += c {
			end := off + c
			if end > len(body) {
				end = len(body)
			}
			fmt.Fprintf(&eb, "%x\r\n", end-off)
			eb.Write(body[off:end])
			eb.WriteString("\r\n")
		}
		eb.WriteString("0\r\n\r\n")
		return []byte(sb.String()), eb.Bytes()
	}
	return []byte(sb.String()), body
}

func (b *c54backend) pieces(method string) [][]byte {
	head, enc := b.raw(method)
	var ps [][]byte
	var parts [][]byte
	if b.frag.sizes != nil {
		rest := enc
		for _, n := range b.frag.sizes {
			if n > len(rest) {
				n = len(rest)
			}
			parts = append(parts, rest[:n])
			rest = rest[n:]
		}
		parts = append(parts, rest)
	} else if b.frag.k > 0 {
		for off := 0; off < len(enc); off += b.frag.k {
			end := off + b.frag.k
			if end > len(enc) {
				end = len(enc)
			}
			parts = append(parts, enc[off:end])
		}
	} else {
		parts = append(parts, enc)
	}
	if b.frag.hdrSep || len(parts) == 0 {
		ps = append(ps, head)
		ps = append(ps, parts...)
	} else {
		first := append(append([]byte(nil), head...), parts[0]...)
		ps = append(ps, first)
		ps = append(ps, parts[1:]...)
	}
	// private copies (the frag reader consumes them)
	out := make([][]byte, len(ps))
	for i := range ps {
		out[i] = append([]byte(nil), ps[i]...)
	}
	return out
}

func (b *c54backend) id() string {
	ce := "-"
	if b.ce != nil {
		ce = strings.Join(b.ce, "&")
	}
	return fmt.Sprintf("%d/%s/c%d/ce=%s/%s", b.status, b.framing, b.chunk, ce, b.frag.id())
}

// ------------------------------------------------------------------------------ client conn

type c54conn struct {
	in  []byte
	out []byte
}

func (c *c54conn) Read(p []byte) (int, error) {
	if len(c.in) == 0 {
		return 0, io.EOF
	}
	n := copy(p, c.in)
	c.in = c.in[n:]
	return n, nil
}
func (c *c54conn) Write(p []byte) (int, error)        { c.out = append(c.out, p...); return len(p), nil }
func (c *c54conn) Close() error                       { return nil }
func (c *c54conn) CloseWrite() error                  { return nil }
func (c *c54conn) LocalAddr() net.Addr                { return &net.TCPAddr{IP: net.IPv4(10, 9, 0, 1), Port: 80} }
func (c *c54conn) RemoteAddr() net.Addr               { return &net.TCPAddr{IP: net.IPv4(10, 9, 0, 2), Port: 40000} }
func (c *c54conn) SetDeadline(t time.Time) error      { return nil }
func (c *c54conn) SetReadDeadline(t time.Time) error  { return nil }
func (c *c54conn) SetWriteDeadline(t time.Time) error { return nil }

// ------------------------------------------------------------------------------ case

type c54req struct {
	method  string   // GET | HEAD
	proto   string   // "1.1" | "1.0" | "1.0ka"
	ae      []string // Accept-Encoding header lines; nil = absent
	rule    c54rule
	nobuf   bool // cluster with ResFlushInterval -1
	bodyID  string
	backend *c54backend
}

func (q *c54req) raw() string {
	path := "/b"
	if q.nobuf {
		path = "/n"
	}
	var sb strings.Builder
	v := "HTTP/1.1"
	if q.proto != "1.1" {
		v = "HTTP/1.0"
	}
	fmt.Fprintf(&sb, "%s %s?r=%s %s\r\nHost: example.org\r\n", q.method, path, q.rule.name(), v)
	if q.proto == "1.0ka" {
		sb.WriteString("Connection: keep-alive\r\n")
	}
	for _, l := range q.ae {
		fmt.Fprintf(&sb, "Accept-Encoding: %s\r\n", l)
	}
	sb.WriteString("\r\n")
	return sb.String()
}

func (q *c54req) id() string {
	ae := "-"
	if q.ae != nil {
		ae = strings.Join(q.ae, "&")
	}
	cl := "b"
	if q.nobuf {
		cl = "n"
	}
	return fmt.Sprintf("%s %s %s ae=%q r=%s body=%s be=%s", q.method, q.proto, cl, ae, q.rule.name(), q.bodyID, q.backend.id())
}

func c54caseID(family string, reqs []*c54req) string {
	ids := make([]string, len(reqs))
	for i, q := range reqs {
		ids[i] = q.id()
	}
	return family + "{" + strings.Join(ids, " ;; ") + "}"
}

// ------------------------------------------------------------------------------ bodies

var c54compressed []byte

func c54body(kind byte, n int) []byte {
	b := make([]byte, n)
	switch kind {
	case 'z':
	case 't':
		const s = "The quick brown fox jumps over the lazy dog. 0123456789\r\n"
		for i := range b {
			b[i] = s[i%len(s)]
		}
	case 'c': // already compressed: the gzip stream of a long non-repetitive text
		if c54compressed == nil {
			var raw bytes.Buffer
			x := uint64(0x2545F4914F6CDD1D)
			for raw.Len() < 96*1024 {
				x ^= x << 13
				x ^= x >> 7
				x ^= x << 17
				fmt.Fprintf(&raw, "%x-%d ", x&0xfffff, x>>50)
			}
			var zb bytes.Buffer
			zw, _ := gzip.NewWriterLevel(&zb, gzip.BestCompression)
			zw.Write(raw.Bytes())
			zw.Close()
			c54compressed = zb.Bytes()
		}
		if n > len(c54compressed) {
			panic("c54 harness: compressed body pool too small")
		}
		copy(b, c54compressed[:n])
	case 'r', 'g':
		x := uint64(0x9E3779B97F4A7C15)
		for i := range b {
			x ^= x << 13
			x ^= x >> 7
			x ^= x << 17
			b[i] = byte(x >> 32)
		}
		if kind == 'g' { // looks like the start of a gzip stream
			copy(b, []byte{0x1f, 0x8b, 0x08, 0x00})
		}
	}
	return b
}

// ------------------------------------------------------------------------------ reference: Accept-Encoding

func c54isTchar(c byte) bool {
	if 'a' <= c && c <= 'z' || 'A' <= c && c <= 'Z' || '0' <= c && c <= '9' {
		return true
	}
	return strings.IndexByte("!#$%&'*+-.^_`|~", c) >= 0
}

func c54trimOWS(s string) string { return strings.Trim(s, " \t") }

// c54qvalue: qvalue = ( "0" [ "." 0*3DIGIT ] ) / ( "1" [ "." 0*3("0") ] ). Returns q in thousandths.
func c54qvalue(s string) (int, bool) {
	if len(s) == 0 || len(s) > 5 || (s[0] != '0' && s[0] != '1') {
		return 0, false
	}
	q := int(s[0]-'0') * 1000
	if len(s) == 1 {
		return q, true
	}
	if s[1] != '.' {
		return 0, false
	}
	mul := 100
	for _, c := range []byte(s[2:]) {
		if c < '0' || c > '9' || (s[0] == '1' && c != '0') {
			return 0, false
		}
		q += int(c-'0') * mul
		mul /= 10
	}
	return q, true
}

// c54refAccepts: does the request accept content-coding enc (RFC 7231 section 5.3.4)?
//
//	Accept-Encoding = #( codings [ weight ] )      codings = content-coding / "identity" / "*"
//	weight = OWS ";" OWS "q=" qvalue               (ABNF literals are case-insensitive: "Q=" too)
//
// A coding listed explicitly decides by its own weight; otherwise "*" decides; otherwise a coding
// other than identity is not acceptable. No field at all: everything is acceptable.
// judged=false: the field value is not well-formed (anything but the one weight parameter, OWS
// around "=", out-of-grammar qvalue, non-token coding) or gives the coding (or "*") both a zero
// and a non-zero weight. why names the deciding element class (used in signatures).
func c54refAccepts(lines []string, enc string) (acc bool, judged bool, why string) {
	if lines == nil {
		return true, true, "no-field"
	}
	type ent struct {
		q      int
		upperQ bool
		name   string
	}
	ents := map[string][]ent{}
	for _, el := range strings.Split(strings.Join(lines, ","), ",") {
		el = c54trimOWS(el)
		if el == "" {
			continue // empty list elements are ignored by recipients
		}
		parts := strings.Split(el, ";")
		if len(parts) > 2 {
			return false, false, "malformed"
		}
		coding := c54trimOWS(parts[0])
		if coding == "" {
			return false, false, "malformed"
		}
		for i := 0; i < len(coding); i++ {
			if !c54isTchar(coding[i]) {
				return false, false, "malformed"
			}
		}
		e := ent{q: 1000, name: coding}
		if len(parts) == 2 {
			p := c54trimOWS(parts[1])
			if len(p) < 3 || (p[0] != 'q' && p[0] != 'Q') || p[1] != '=' {
				return false, false, "malformed"
			}
			e.upperQ = p[0] == 'Q'
			var ok bool
			if e.q, ok = c54qvalue(p[2:]); !ok {
				return false, false, "malformed"
			}
		}
		k := strings.ToLower(coding)
		ents[k] = append(ents[k], e)
	}
	decide := func(es []ent, kind string) (bool, bool, string) {
		pos, zero := 0, 0
		feat := ""
		for _, e := range es {
			if e.q > 0 {
				pos++
				continue
			}
			zero++
			if e.upperQ && !strings.Contains(feat, "+upperQ") {
				feat += "+upperQ"
			}
			if e.name != strings.ToLower(e.name) && !strings.Contains(feat, "+name-case") {
				feat += "+name-case"
			}
		}
		if pos > 0 && zero > 0 {
			return false, false, "conflicting"
		}
		if pos > 0 {
			return true, true, kind
		}
		return false, true, kind + "-with-q0" + feat
	}
	if es, ok := ents[enc]; ok {
		return decide(es, "listed")
	}
	if es, ok := ents["*"]; ok {
		return decide(es, "star")
	}
	return false, true, "not-listed"
}

// ------------------------------------------------------------------------------ reference: decompression

func c54gunzip(b []byte) ([]byte, error) {
	br := bytes.NewReader(b)
	zr, err := gzip.NewReader(br)
	if err != nil {
		return nil, fmt.Errorf("gzip header: %v", err)
	}
	zr.Multistream(false)
	out, err := io.ReadAll(zr)
	if err != nil {
		return out, fmt.Errorf("gzip stream: %v", err)
	}
	if br.Len() != 0 {
		return out, fmt.Errorf("%d trailing bytes after the gzip member", br.Len())
	}
	return out, nil
}

func c54unbrotli(b []byte) ([]byte, error) {
	br := bytes.NewReader(b)
	out, err := io.ReadAll(brotli.NewReader(br))
	if err != nil {
		return out, fmt.Errorf("brotli stream: %v", err)
	}
	if len(b) == 0 {
		return out, errors.New("brotli stream: empty input")
	}
	if br.Len() != 0 {
		return out, fmt.Errorf("%d trailing bytes after the brotli stream", br.Len())
	}
	return out, nil
}

// ------------------------------------------------------------------------------ execution + oracle

type c54countReader struct {
	b   []byte
	pos int
}

func (c *c54countReader) Read(p []byte) (int, error) {
	if c.pos >= len(c.b) {
		return 0, io.EOF
	}
	n := copy(p, c.b[c.pos:])
	c.pos += n
	return n, nil
}

func c54lenClass(n int, f int) string {
	switch {
	case n == 0:
		return "empty"
	case n < f:
		return "lt-flush"
	case n == f:
		return "eq-flush"
	case n%f == 0:
		return "multiple-of-flush"
	}
	return "gt-flush"
}

func c54short(b []byte) string {
	if len(b) > 48 {
		return fmt.Sprintf("%q...(%d bytes)", b[:48], len(b))
	}
	return fmt.Sprintf("%q", b)
}

type c54verdict struct {
	sig, detail string
}

// execute runs the requests on one fresh connection through the real server and judges every
// response. outcomes receives one class per response.
func (h *c54h) execute(reqs []*c54req, outcome func(string)) (vs []c54verdict, panicked string) {
	h.probes = h.probes[:0]
	h.tr.queue = h.tr.queue[:0]
	h.tr.errs = h.tr.errs[:0]
	conn := &c54conn{}
	for _, q := range reqs {
		conn.in = append(conn.in, q.raw()...)
		h.tr.queue = append(h.tr.queue, q.backend)
	}
	h.srv.ReverseProxy.tsMu.Lock()
	for _, name := range []string{"cbuf", "cnobuf"} {
		h.srv.ReverseProxy.transports[name] = h.tr
	}
	h.srv.ReverseProxy.tsMu.Unlock()

	pan, val := vk.Guard(func() {
		c, err := newConn(conn, h.srv)
		if err != nil {
			panic(err)
		}
		c.serve() // conn.serve recovers panics itself; see PanicClientConnServe below
	})
	if pan {
		return nil, val
	}
	if len(h.tr.errs) > 0 {
		panic("c54 harness: " + strings.Join(h.tr.errs, "; "))
	}

	wire := conn.out
	if h.dump != nil {
		h.dump(wire)
	}
	cr := &c54countReader{b: wire}
	br := bufio.NewReaderSize(cr, 4096)
	consumed := func() int { return cr.pos - br.Buffered() }
	prevCompressed := ""
	prevStatus := 0
	for i := 0; ; i++ {
		start := consumed()
		if start >= len(wire) {
			break
		}
		if i >= len(reqs) || i >= len(h.probes) {
			// bytes after the last response
			if prevCompressed != "" {
				vs = append(vs, c54verdict{
					sig:    fmt.Sprintf("body:status-%d:%s:bytes-on-wire-after-end-of-response", prevStatus, prevCompressed),
					detail: fmt.Sprintf("%d surplus bytes follow the complete response #%d: %s", len(wire)-start, i-1, c54short(wire[start:])),
				})
			} else {
				outcome("unjudged:surplus-bytes-after-uncompressed-response")
			}
			break
		}
		q := reqs[i]
		pr := h.probes[i]
		enc := ""
		switch pr.bodyType {
		case "*mod_compress.GzipFilter":
			enc = "gzip"
		case "*mod_compress.BrotliFilter":
			enc = "br"
		}
		resp, err := http.ReadResponse(br, &http.Request{Method: q.method})
		if err != nil {
			if prevCompressed != "" {
				vs = append(vs, c54verdict{
					sig:    fmt.Sprintf("body:status-%d:%s:bytes-on-wire-after-end-of-response", prevStatus, prevCompressed),
					detail: fmt.Sprintf("what follows response #%d is not a response (%v): %s", i-1, err, c54short(wire[start:])),
				})
			} else if enc != "" {
				vs = append(vs, c54verdict{
					sig:    fmt.Sprintf("body:%s:response-head-unreadable", enc),
					detail: fmt.Sprintf("response #%d head unreadable (%v): %s", i, err, c54short(wire[start:])),
				})
			} else {
				outcome("unjudged:unreadable-uncompressed-response")
			}
			break
		}
		hdrEnd := start + bytes.Index(wire[start:], []byte("\r\n\r\n")) + 4
		body, rerr := io.ReadAll(resp.Body)
		resp.Body.Close()
		prevCompressed, prevStatus = enc, resp.StatusCode

		if enc == "" {
			// the module did not compress: the statement says nothing
			reason := "other"
			switch {
			case q.rule.cmd == "":
				reason = "no-rule"
			case q.backend.ce != nil && q.backend.ce[0] != "" && q.backend.ce[0] != "identity":
				reason = "backend-encoded"
			default:
				reason = "accept-encoding"
				if acc, judged, _ := c54refAccepts(q.ae, q.rule.enc()); judged && acc {
					reason = "acceptable-but-left-alone(unjudged)"
				}
			}
			intact := "intact"
			want := q.backend.body
			if q.method == "HEAD" || q.backend.bodyless() || q.backend.framing == "clN" {
				want = nil
			}
			if rerr != nil || !bytes.Equal(body, want) {
				intact = "changed"
			}
			outcome("pass:" + reason + ":" + intact)
			continue
		}

		// ---- the module compressed this response -----------------------------------------
		wireFraming := "close-delimited"
		if len(resp.TransferEncoding) > 0 {
			wireFraming = "chunked"
		} else if resp.ContentLength >= 0 {
			wireFraming = "content-length"
		}
		inClass := fmt.Sprintf("%s:%s", enc, c54lenClass(len(q.backend.body), q.rule.f))

		// accept clause
		acc, judged, why := c54refAccepts(q.ae, enc)
		if judged && !acc {
			vs = append(vs, c54verdict{
				sig:    fmt.Sprintf("accept:%s:%s:compressed-anyway", enc, why),
				detail: fmt.Sprintf("Accept-Encoding %q does not accept %s (%s) but the module compressed with it", q.ae, enc, why),
			})
		} else if !judged {
			outcome("accept-unjudged:" + enc + ":" + why)
		} else {
			outcome("accept-ok:" + enc + ":" + why)
		}

		// announce clause
		if ce := resp.Header.Values("Content-Encoding"); len(ce) != 1 || ce[0] != enc {
			vs = append(vs, c54verdict{
				sig:    fmt.Sprintf("announce:%s:wire-content-encoding-differs", enc),
				detail: fmt.Sprintf("module installed the %s filter but the wire says Content-Encoding %q", enc, ce),
			})
		}

		// raw Content-Length lines of this response head
		var cls []string
		for _, l := range strings.Split(string(wire[start:hdrEnd]), "\r\n") {
			if k := strings.IndexByte(l, ':'); k > 0 && strings.EqualFold(l[:k], "Content-Length") {
				cls = append(cls, strings.TrimSpace(l[k+1:]))
			}
		}

		if q.method == "HEAD" || resp.StatusCode == 304 {
			// no body for the client by definition: not judged
			outcome(fmt.Sprintf("compressed-bodyless-unjudged:%s:%s", q.method, strconv.Itoa(resp.StatusCode)))
			continue
		}
		if resp.StatusCode == 204 || resp.StatusCode/100 == 1 {
			// The client takes no body after such a head, so there is nothing to decompress
			// (not judged, like HEAD and 304) — unless the output of the module's filter is on
			// the wire anyway: then the client does receive these bytes, after a response that
			// ended, and they are not a body that decompresses to the (empty) backend body.
			next := len(wire)
			if k := bytes.Index(wire[hdrEnd:], []byte("HTTP/1.")); k >= 0 {
				next = hdrEnd + k
			}
			if next > hdrEnd {
				vs = append(vs, c54verdict{
					sig:    fmt.Sprintf("body:status-%d:%s:filter-output-on-wire-after-bodiless-head", resp.StatusCode, enc),
					detail: fmt.Sprintf("status %d response was compressed: Content-Encoding %s and %d surplus bytes follow the bodiless head: %s", resp.StatusCode, enc, next-hdrEnd, c54short(wire[hdrEnd:next])),
				})
				break // what follows on this connection is out of sync; not judged further
			}
			outcome(fmt.Sprintf("compressed-bodyless-unjudged:%s:%s", q.method, strconv.Itoa(resp.StatusCode)))
			prevCompressed = "" // nothing of this response is on the wire after its head
			continue
		}

		// length clause
		lenBad := false
		if len(cls) > 0 {
			staleKind := "other-value"
			if (q.backend.framing == "cl") && cls[0] == strconv.Itoa(len(q.backend.body)) {
				staleKind = "backend-value"
			}
			n, perr := strconv.Atoi(cls[0])
			switch {
			case len(cls) > 1 || perr != nil:
				lenBad = true
				vs = append(vs, c54verdict{sig: fmt.Sprintf("length:%s:malformed-content-length", enc), detail: fmt.Sprintf("Content-Length lines %q", cls)})
			case wireFraming == "chunked":
				lenBad = true
				vs = append(vs, c54verdict{sig: fmt.Sprintf("length:%s:content-length-with-chunked:%s", enc, staleKind), detail: fmt.Sprintf("Content-Length %q next to chunked framing", cls)})
			case rerr != nil || n != len(body) || (i == len(reqs)-1 && n != len(wire)-hdrEnd):
				lenBad = true
				vs = append(vs, c54verdict{
					sig:    fmt.Sprintf("length:%s:stale-content-length:%s", enc, staleKind),
					detail: fmt.Sprintf("Content-Length %d on the wire, backend body %d bytes, %d body bytes read (err %v), %d bytes delivered after the head", n, len(q.backend.body), len(body), rerr, len(wire)-hdrEnd),
				})
			}
		}

		// body clause
		if rerr != nil {
			if !lenBad {
				vs = append(vs, c54verdict{
					sig:    fmt.Sprintf("body:%s:%s:framing-broken", inClass, wireFraming),
					detail: fmt.Sprintf("client cannot read the body: %v after %d bytes", rerr, len(body)),
				})
			}
			break
		}
		var plain []byte
		var derr error
		if enc == "gzip" {
			plain, derr = c54gunzip(body)
		} else {
			plain, derr = c54unbrotli(body)
		}
		switch {
		case derr != nil:
			if !lenBad {
				vs = append(vs, c54verdict{
					sig:    fmt.Sprintf("body:%s:does-not-decompress", inClass),
					detail: fmt.Sprintf("%v; %d compressed bytes, %d plain bytes recovered, backend body %d bytes", derr, len(body), len(plain), len(q.backend.body)),
				})
			}
		case !bytes.Equal(plain, q.backend.body):
			vs = append(vs, c54verdict{
				sig:    fmt.Sprintf("body:%s:decompressed-differs", inClass),
				detail: fmt.Sprintf("decompressed %d bytes %s, backend body %d bytes %s", len(plain), c54short(plain), len(q.backend.body), c54short(q.backend.body)),
			})
		default:
			outcome(fmt.Sprintf("ok:%s:%s", enc, wireFraming))
		}
	}
	return vs, ""
}

// ------------------------------------------------------------------------------ family F: several responses alive at once

// conn.serve handles one response at a time per connection; a bfe process serves many. Family F
// holds 3 responses at once at the seam where that is possible deterministically: the server's
// real HandleReadResponse callback list (the real mod_compress + the probe) is applied to real
// bfe_http.Response objects (backend stream parsed by the real ReadResponse, request parsed by
// the real ReadRequest), and the harness plays the consumers the way copyResponse does: Read
// with a 32 KiB buffer until io.EOF, Close — where Close may come early and twice, as bfe does
// (CloseWatcher's src.Close() on client disconnect, then sendResponse's res.Body.Close(), then
// ServeHTTP's deferred res.Body.Close()).
type c54fresp struct {
	res     *bfe_http.Response
	body    []byte
	enc     string
	started bool
	eof     bool
	rerr    error
	closes  int
	aborted bool // closed before io.EOF was seen: the client is gone, nothing is judged
	out     []byte
}

type c54fev struct {
	op byte // 's' start, 'r' read, 'c' close
	i  int
}

func (e c54fev) String() string { return fmt.Sprintf("%c%c", e.op, 'A'+byte(e.i)) }

func (h *c54h) fstart(x *c54fresp, ru c54rule) {
	raw := fmt.Sprintf("GET /b?r=%s HTTP/1.1\r\nHost: example.org\r\nAccept-Encoding: gzip, br\r\n\r\n", ru.name())
	hreq, err := bfe_http.ReadRequest(bfe_bufio.NewReader(strings.NewReader(raw)), h.srv.MaxHeaderUriBytes)
	if err != nil {
		panic("c54 harness: request unparsable: " + err.Error())
	}
	cconn := &c54conn{}
	breq := bfe_basic.NewRequest(hreq, cconn, bfe_basic.NewRequestStat(hreq.State.StartTime), bfe_basic.NewSession(cconn), h.srv.GetServerConf())
	breq.Route.Product = "p" // what the real host table lookup yields for example.org
	be := &c54backend{status: 200, framing: "cl", body: x.body}
	res, err := bfe_http.ReadResponse(bfe_bufio.NewReader(&c54frag{pieces: be.pieces("GET")}), hreq)
	if err != nil {
		panic("c54 harness: backend script unparsable: " + err.Error())
	}
	h.probes = h.probes[:0]
	h.srv.CallBacks.GetHandlerList(bfe_module.HandleReadResponse).FilterResponse(breq, res)
	switch h.probes[len(h.probes)-1].bodyType {
	case "*mod_compress.GzipFilter":
		x.enc = "gzip"
	case "*mod_compress.BrotliFilter":
		x.enc = "br"
	default:
		panic(fmt.Sprintf("c54 harness: family F response was not compressed: probes %v, header %v, query %v, ae %q", h.probes, res.Header, breq.CachedQuery(), hreq.Header.GetDirect("Accept-Encoding")))
	}
	x.res = res
	x.started = true
}

// c54fenabled lists the enabled events in a fixed order.
func c54fenabled(rs []*c54fresp) []c54fev {
	var evs []c54fev
	next := -1
	for i, x := range rs {
		if !x.started {
			if next < 0 {
				next = i
			}
			continue
		}
		if x.closes == 0 && !x.eof && x.rerr == nil {
			evs = append(evs, c54fev{'r', i})
		}
	}
	for i, x := range rs {
		if x.started && x.closes < 2 {
			evs = append(evs, c54fev{'c', i})
		}
	}
	if next >= 0 {
		evs = append(evs, c54fev{'s', next})
	}
	return evs
}

// frun executes one history: `depth` chosen events, then the completion (start what was not
// started, read all open responses round-robin to io.EOF, close each once) and judges every
// response that was read to io.EOF before its first Close.
func (h *c54h) frun(ru c54rule, depth int, pick func(n int) int, outcome func(string)) (hist []c54fev, vs []c54verdict, aborted bool) {
	rs := []*c54fresp{
		{body: []byte(strings.Repeat("Alpha response body line.\n", 6))},
		{body: []byte(strings.Repeat("bravo-BRAVO-bravo 0123456789;", 5))},
		{body: []byte(strings.Repeat("<c>charlie</c>\r\n", 11))},
	}
	buf := make([]byte, 32*1024)
	do := func(e c54fev) {
		x := rs[e.i]
		switch e.op {
		case 's':
			h.fstart(x, ru)
		case 'r':
			n, err := x.res.Body.Read(buf)
			x.out = append(x.out, buf[:n]...)
			if err == io.EOF {
				x.eof = true
			} else if err != nil {
				x.rerr = err
			}
		case 'c':
			if !x.eof && x.rerr == nil {
				x.aborted = true
			}
			x.res.Body.Close()
			x.closes++
		}
		hist = append(hist, e)
	}
	for step := 0; step < depth; step++ {
		evs := c54fenabled(rs)
		if len(evs) == 0 {
			break
		}
		k := pick(len(evs))
		if k < 0 {
			// foreign shard: leave cleanly
			for _, x := range rs {
				if x.started && x.closes == 0 {
					x.res.Body.Close()
				}
			}
			return hist, nil, true
		}
		do(evs[k])
	}
	for i, x := range rs {
		if !x.started {
			do(c54fev{'s', i})
		}
	}
	for open := true; open; {
		open = false
		for i, x := range rs {
			if x.closes == 0 && !x.eof && x.rerr == nil {
				do(c54fev{'r', i})
				open = true
			}
		}
	}
	for i, x := range rs {
		if x.closes == 0 {
			do(c54fev{'c', i})
		}
	}
	for i, x := range rs {
		name := string('A' + byte(i))
		switch {
		case x.aborted:
			outcome("F:aborted-unjudged")
			continue
		case x.rerr != nil:
			vs = append(vs, c54verdict{
				sig:    fmt.Sprintf("body:%s:concurrent-responses:read-error", x.enc),
				detail: fmt.Sprintf("response %s: Read failed with %v after %d bytes although its backend stream is intact", name, x.rerr, len(x.out)),
			})
			continue
		}
		if ce := x.res.Header["Content-Encoding"]; len(ce) != 1 || ce[0] != x.enc {
			vs = append(vs, c54verdict{sig: fmt.Sprintf("announce:%s:concurrent-responses:content-encoding-differs", x.enc), detail: fmt.Sprintf("response %s: Content-Encoding %q", name, ce)})
		}
		if cl := x.res.Header["Content-Length"]; len(cl) != 0 {
			vs = append(vs, c54verdict{sig: fmt.Sprintf("length:%s:concurrent-responses:content-length-kept", x.enc), detail: fmt.Sprintf("response %s: Content-Length %q handed on with a compressed body", name, cl)})
		}
		var plain []byte
		var derr error
		if x.enc == "gzip" {
			plain, derr = c54gunzip(x.out)
		} else {
			plain, derr = c54unbrotli(x.out)
		}
		switch {
		case derr != nil:
			vs = append(vs, c54verdict{
				sig:    fmt.Sprintf("body:%s:concurrent-responses:does-not-decompress", x.enc),
				detail: fmt.Sprintf("response %s: %v; %d compressed bytes %s, %d plain bytes recovered, backend body %d bytes", name, derr, len(x.out), c54short(x.out), len(plain), len(x.body)),
			})
		case !bytes.Equal(plain, x.body):
			vs = append(vs, c54verdict{
				sig:    fmt.Sprintf("body:%s:concurrent-responses:decompressed-differs", x.enc),
				detail: fmt.Sprintf("response %s: decompressed %d bytes %s, backend body %d bytes %s", name, len(plain), c54short(plain), len(x.body), c54short(x.body)),
			})
		default:
			outcome("F:ok:" + x.enc)
		}
	}
	return hist, vs, false
}

// ------------------------------------------------------------------------------ family R: the body reader contract

// res.Body is an io.Reader for whoever consumes the response after the module: bfe's copy loops
// (32 KiB), modules later in the same callback list (mod_markdown: ioutil.ReadAll), protocol
// writers. Family R plays consumers with enumerated read-size patterns on the filter the real
// module installed (same seam as family F) and judges what such a consumer receives.
type c54pattern struct {
	name  string
	class string       // signature class
	size  func(i int) int // len(p) of the i-th Read; nil = io.ReadAll
}

var c54patterns = []c54pattern{
	{"1", "small-reads", func(i int) int { return 1 }},
	{"7", "small-reads", func(i int) int { return 7 }},
	{"100", "small-reads", func(i int) int { return 100 }},
	{"512", "medium-reads", func(i int) int { return 512 }},
	{"4096", "medium-reads", func(i int) int { return 4096 }},
	{"32768", "large-reads", func(i int) int { return 32768 }},
	{"readall", "readall", nil},
	{"alt1-4096", "alternating-reads", func(i int) int { return []int{1, 4096}[i%2] }},
	{"alt32768-7", "alternating-reads", func(i int) int { return []int{32768, 7}[i%2] }},
	{"grow", "growing-reads", func(i int) int {
		if i > 15 {
			i = 15
		}
		return 1 << uint(i)
	}},
	{"shrink", "shrinking-reads", func(i int) int {
		if i > 12 {
			return 1
		}
		return 4096 >> uint(i)
	}},
}

// c54contractReader checks the per-call part of the io.Reader contract while a consumer reads.
type c54contractReader struct {
	r      io.Reader
	calls  int
	bad    []string
	sawErr error
}

func (c *c54contractReader) Read(p []byte) (int, error) {
	n, err := c.r.Read(p)
	c.calls++
	switch {
	case n < 0 || n > len(p):
		c.bad = append(c.bad, fmt.Sprintf("n-out-of-range: Read(len %d) returned n=%d", len(p), n))
		if n > len(p) {
			n = len(p)
		}
		if n < 0 {
			n = 0
		}
	case err != nil && err != io.EOF && n > 0:
		c.bad = append(c.bad, fmt.Sprintf("data-with-error: Read returned %d bytes together with %v", n, err))
	case c.sawErr != nil && n > 0:
		c.bad = append(c.bad, fmt.Sprintf("data-after-error: Read returned %d bytes after %v", n, c.sawErr))
	}
	if err != nil && c.sawErr == nil {
		c.sawErr = err
	}
	return n, err
}

func (h *c54h) rrun(ru c54rule, kind byte, body []byte, pt c54pattern, outcome func(string)) (vs []c54verdict) {
	x := &c54fresp{body: body}
	h.fstart(x, ru)
	cr := &c54contractReader{r: x.res.Body}
	var out []byte
	var rerr error
	if pt.size == nil {
		out, rerr = io.ReadAll(cr)
	} else {
		big := make([]byte, 32768)
		for i := 0; ; i++ {
			if i > 4*len(body)+4096 {
				rerr = errors.New("c54: consumer gave up, no io.EOF after too many reads")
				break
			}
			n, err := cr.Read(big[:pt.size(i)])
			out = append(out, big[:n]...)
			if err == io.EOF {
				break
			}
			if err != nil {
				rerr = err
				break
			}
		}
	}
	x.res.Body.Close()
	bodyClass := "compressible"
	switch {
	case len(body) == 0:
		bodyClass = "empty"
	case kind == 'r' || kind == 'c':
		bodyClass = "incompressible"
	}
	in := fmt.Sprintf("%s:%s:%s", x.enc, pt.class, bodyClass)
	for _, b := range cr.bad {
		vs = append(vs, c54verdict{sig: fmt.Sprintf("reader:%s:%s", in, strings.SplitN(b, ":", 2)[0]), detail: b})
	}
	if ce := x.res.Header["Content-Encoding"]; len(ce) != 1 || ce[0] != x.enc {
		vs = append(vs, c54verdict{sig: fmt.Sprintf("announce:%s:content-encoding-differs", in), detail: fmt.Sprintf("Content-Encoding %q", ce)})
	}
	if cl := x.res.Header["Content-Length"]; len(cl) != 0 {
		vs = append(vs, c54verdict{sig: fmt.Sprintf("length:%s:content-length-kept", in), detail: fmt.Sprintf("Content-Length %q handed on with a compressed body", cl)})
	}
	if rerr != nil {
		vs = append(vs, c54verdict{sig: fmt.Sprintf("body:%s:read-error", in), detail: fmt.Sprintf("consumer got %v after %d bytes in %d reads although the backend stream is intact", rerr, len(out), cr.calls)})
		return vs
	}
	var plain []byte
	var derr error
	if x.enc == "gzip" {
		plain, derr = c54gunzip(out)
	} else {
		plain, derr = c54unbrotli(out)
	}
	switch {
	case derr != nil:
		vs = append(vs, c54verdict{
			sig:    fmt.Sprintf("body:%s:does-not-decompress", in),
			detail: fmt.Sprintf("io.EOF after %d compressed bytes in %d reads, but: %v; %d of %d plain bytes recovered (prefix equal: %v)", len(out), cr.calls, derr, len(plain), len(body), bytes.HasPrefix(body, plain)),
		})
	case !bytes.Equal(plain, body):
		vs = append(vs, c54verdict{
			sig:    fmt.Sprintf("body:%s:decompressed-differs", in),
			detail: fmt.Sprintf("io.EOF after %d compressed bytes in %d reads; decompressed %d bytes, backend body %d bytes (prefix equal: %v)", len(out), cr.calls, len(plain), len(body), bytes.HasPrefix(body, plain)),
		})
	default:
		outcome(fmt.Sprintf("R:ok:%s:%s", x.enc, pt.class))
	}
	return vs
}

// ------------------------------------------------------------------------------ enumeration

var c54aeAlphabet = [][]string{
	nil,
	{""},
	{"gzip"},
	{"br"},
	{"gzip, br"},
	{"br,gzip"},
	{"gzip;q=0"},
	{"gzip; q=0"},
	{"gzip ;q=0"},
	{"gzip ; q=0.0"},
	{"gzip\t;q=0"},
	{"br ;q=0"},
	{"br;q=0"},
	{"gzip;q=0, br"},
	{"gzip ;q=0, br"},
	{"br ;q=0.000, gzip"},
	{"gzip;q=1.0"},
	{"gzip;q=0.001"},
	{"gzip ;q=0.5"},
	{"br ; q=1"},
	{"identity"},
	{"*"},
	{"*;q=0, gzip"},
	{"identity;q=1, *;q=0"},
	{"deflate"},
	{"deflate, gzip ;q=0"},
	{"GZIP"},
	{"BR"},
	{"x-gzip"},
	{"gzip2, brx"},
	{",gzip"},
	{"gzip,"},
	{"\"gzip\""},
	{"gzip;level=1"},
	{"gzip", "br"},
	{"identity", "gzip"},
	{"gzip", "gzip;q=0"},
}

// c54aeGrammar builds the Accept-Encoding alphabet of family G from the grammar: for the target
// coding every {name case} x {weight spelling}, every {list context} x {weight spelling}, the
// forms without the target ("*", identity, the neighbour coding), and two-line fields.
// full = the complete cross name x weight x context.
func c54aeGrammar(target, neighbour string, full bool) [][]string {
	mixed := map[string]string{"gzip": "GzIp", "br": "bR"}[target]
	names := []string{target, strings.ToUpper(target), mixed}
	weights := []string{
		"", ";q=0", ";Q=0", ";q=0.", ";q=0.0", ";Q=0.0", ";q=0.00", ";q=0.000", ";Q=0.000", ";q=0.001", ";Q=0.001", ";q=0.5", ";Q=0.5",
		";q=1", ";Q=1", ";q=1.", ";q=1.0", ";q=1.000", ";Q=1.000",
		" ;q=0", "; q=0", " ; q=0", "\t;\tq=0", " ;Q=0", "; Q=0.0", " ; Q=0", "  ;  q=0.000", " ;q=1", "; Q=1",
		// not in the grammar (unjudged): OWS around "=", missing / garbage / out-of-range values,
		// other parameters, several parameters
		";q =0", ";q= 0", ";q = 0", ";q=", ";q", ";Q", ";=0", ";q=abc", ";q=-1", ";q=-0", ";q=2", ";q=1.001", ";q=0.0000", ";q=1.0000", ";q=00", ";q=.0", ";q=0,0",
		";q=0e0", ";q=1e-9", ";q=NaN", ";q=0x0", ";qq=0", ";level=0", ";level=1;q=0", ";q=0;level=1", ";q=0;q=1", ";q=1;q=0", ";q=0;q=0", ";Q=0;q=1", ";", ";;q=0",
	}
	contexts := []string{
		"%s", " %s", "%s ", "\t%s\t", ",%s", "%s,", ", ,%s", "%s , ,",
		"identity, %s", "%s, identity", "deflate,%s", "%s ,deflate", "deflate;q=0, %s", "%s, deflate;q=0",
		"*;q=0, %s", "%s, *;q=0", "*, %s", "%s, *", "*;Q=0,%s", "identity;q=0, %s",
		neighbour + ", %s", "%s, " + neighbour, neighbour + ";q=0, %s", "%s, " + neighbour + ";q=0", neighbour + ";Q=0,%s",
		"x-%s, %s", "%s2, %s", "%s, %s", "%s;q=1, %s", "%s;q=0, %s",
	}
	seen := map[string]bool{}
	var out [][]string
	add := func(lines ...string) {
		k := strings.Join(lines, "\x00")
		if !seen[k] {
			seen[k] = true
			out = append(out, lines)
		}
	}
	fill := func(ctx, el string) string {
		// contexts with two verbs: the first gets the bare target name (or its decoy prefix use)
		if strings.Count(ctx, "%s") == 2 {
			return fmt.Sprintf(ctx, target, el)
		}
		return fmt.Sprintf(ctx, el)
	}
	for _, w := range weights {
		for ni, n := range names {
			for ci, ctx := range contexts {
				if !full && ni != 0 && ci != 0 {
					continue
				}
				add(fill(ctx, n+w))
			}
		}
	}
	// forms that do not list the target
	for _, v := range []string{
		"", " ", ",", "*", "*;q=0", "*;Q=0", "*;q=0.000", "* ;q=0", "*;q=0.5", "*;q=1", "*;q=abc", "identity", "identity;q=0", "identity;q=0, *;q=0", "identity;q=0, *",
		"identity;q=1, *;q=0", neighbour, neighbour + ";q=0", strings.ToUpper(neighbour), "deflate", "compress, deflate", "x-" + target, target + "2", target + "-9",
		"\"" + target + "\"", "(" + target + ")", target + "/1", target + "=1",
	} {
		add(v)
	}
	// several field lines
	small := []string{"", ";q=0", ";Q=0", ";q=0.5"}
	for _, w1 := range small {
		for _, w2 := range small {
			add(target+w1, target+w2)
			add(target+w1, neighbour+w2)
			add(neighbour+w1, target+w2)
			add("*"+w1, target+w2)
			add(target+w1, "*"+w2)
		}
	}
	add("identity", target)
	add("", target)
	add(target, "")
	return out
}

var c54ceAlphabet = [][]string{
	nil,
	{"identity"},
	{""},
	{"gzip"},
	{"br"},
	{"Identity"},
	{"deflate"},
	{"identity", "gzip"},
	{"identity, gzip"},
}

func TestVerifC54(t *testing.T) {
	r := vk.Start(t, "C54")
	defer r.Finish()
	dir := os.Getenv("VERIF_SCRATCH")
	if dir == "" {
		dir = filepath.Join(os.TempDir(), "c54-scratch")
	}
	if r.Replaying() {
		dir += "-replay"
	}
	h := c54newServer(dir)
	defer os.RemoveAll(dir)
	thorough := r.Thorough()
	if r.Replaying() {
		h.dump = func(wire []byte) {
			w := wire
			if len(w) > 1500 {
				w = w[:1500]
			}
			t.Logf("replay: %d bytes received by the client: %q", len(wire), w)
		}
	}

	idx := 0
	stop := false
	only := os.Getenv("C54_ONLY") // debugging aid: run one family
	famN := map[string]int{}
	famT := map[string]time.Duration{}
	famE := map[string]int{}
	nSamples := map[string]int{}
	nPanics := int64(0)
	runCase := func(family string, reqs []*c54req) {
		idx++
		famE[family[:1]]++
		if stop || !r.Mine(idx) || (only != "" && family[:1] != only) {
			return
		}
		id := c54caseID(family, reqs)
		if !r.Case(id) {
			return
		}
		before := h.srv.serverStatus.ProxyState.PanicClientConnServe.Get()
		t0 := time.Now()
		var ocs []string
		vs, pan := h.execute(reqs, func(c string) { ocs = append(ocs, c); r.Outcome(c) })
		if nSamples[family[:1]] < 1 && r.Mine(0) {
			nSamples[family[:1]]++
			r.Sample(map[string]interface{}{"case": id, "outcomes": ocs, "violations": len(vs)})
		}
		famN[family[:1]]++
		famT[family[:1]] += time.Since(t0)
		if pan != "" {
			r.Outcome("panic")
			nPanics++
			r.Sample(map[string]string{"panic": pan, "case": id})
		}
		if after := h.srv.serverStatus.ProxyState.PanicClientConnServe.Get(); after != before {
			r.Outcome("panic-recovered-by-conn.serve")
			nPanics++
			r.Sample(map[string]string{"panic": "recovered by conn.serve", "case": id})
		}
		for _, v := range vs {
			r.Violation(v.sig, id, v.detail)
		}
		for _, q := range reqs {
			if q.rule.cmd != "" {
				r.Nontrivial(q.id())
			}
		}
		if famN[family[:1]]%64 == 0 && r.Expired("enumeration (family "+family[:1]+")") {
			stop = true
		}
	}

	mkBackend := func(status int, framing string, chunk int, ce []string, body []byte, fr c54fragSpec) *c54backend {
		return &c54backend{status: status, framing: framing, chunk: chunk, ce: ce, body: body, frag: fr}
	}
	text100 := c54body('t', 100)
	whole := c54fragSpec{}
	gz := c54rule{"GZIP", 6, 64}
	bro := c54rule{"BROTLI", 5, 64}
	none := c54rule{}
	both := []string{"gzip, br"}

	// ---- family E: several requests on one keep-alive connection (every sequence over a small
	//      alphabet of request kinds): each response must be readable after the previous one.
	type kind struct {
		name string
		mk   func() *c54req
	}
	kinds := []kind{
		{"gz-cl", func() *c54req {
			return &c54req{method: "GET", proto: "1.1", ae: []string{"gzip"}, rule: gz, bodyID: "t100", backend: mkBackend(200, "cl", 0, nil, text100, whole)}
		}},
		{"br-chunked", func() *c54req {
			return &c54req{method: "GET", proto: "1.1", ae: []string{"br"}, rule: bro, nobuf: true, bodyID: "t100", backend: mkBackend(200, "chunked", 33, nil, text100, c54fragSpec{hdrSep: true, k: 40})}
		}},
		{"gz-empty", func() *c54req {
			return &c54req{method: "GET", proto: "1.1", ae: []string{"gzip"}, rule: gz, bodyID: "z0", backend: mkBackend(200, "cl", 0, nil, nil, whole)}
		}},
		{"plain", func() *c54req {
			return &c54req{method: "GET", proto: "1.1", ae: []string{"identity"}, rule: gz, bodyID: "t100", backend: mkBackend(200, "cl", 0, nil, text100, whole)}
		}},
		{"gz-head", func() *c54req {
			return &c54req{method: "HEAD", proto: "1.1", ae: []string{"gzip"}, rule: gz, bodyID: "t100", backend: mkBackend(200, "cl", 0, nil, text100, whole)}
		}},
		{"gz-204", func() *c54req {
			return &c54req{method: "GET", proto: "1.1", ae: []string{"gzip"}, rule: gz, bodyID: "z0", backend: mkBackend(204, "none", 0, nil, nil, whole)}
		}},
		{"br-304", func() *c54req {
			return &c54req{method: "GET", proto: "1.1", ae: []string{"br"}, rule: bro, bodyID: "z0", backend: mkBackend(304, "none", 0, nil, nil, whole)}
		}},
		{"gz-big", func() *c54req {
			return &c54req{method: "GET", proto: "1.1", ae: []string{"gzip"}, rule: c54rule{"GZIP", 9, 4096}, bodyID: "t9000", backend: mkBackend(200, "chunked", 1000, nil, c54body('t', 9000), c54fragSpec{hdrSep: true, k: 999})}
		}},
	}
	depth := r.Pick(2, 3)
	seq := make([]int, depth)
	var rec func(d, n int)
	rec = func(d, n int) {
		if d == n {
			reqs := make([]*c54req, n)
			names := make([]string, n)
			for i := 0; i < n; i++ {
				reqs[i] = kinds[seq[i]].mk()
				names[i] = kinds[seq[i]].name
			}
			runCase("E:"+strings.Join(names, ","), reqs)
			return
		}
		for i := range kinds {
			seq[d] = i
			rec(d+1, n)
		}
	}
	for n := 2; n <= depth; n++ {
		rec(0, n)
	}

	// ---- family G: the Accept-Encoding grammar (coding-name case x weight spellings x list
	//      contexts x neighbour codings x "*" / identity forms x several field lines) for both
	//      codings, each with the GZIP and the BROTLI rule, plain 200 backend.
	for _, tg := range [][2]string{{"gzip", "br"}, {"br", "gzip"}} {
		for _, ae := range c54aeGrammar(tg[0], tg[1], thorough) {
			for _, ru := range []c54rule{gz, bro} {
				if !thorough && ru.enc() != tg[0] && len(ae) == 1 && strings.ContainsAny(ae[0], "=") && !strings.Contains(strings.ToLower(ae[0]), ru.enc()) {
					continue // quick: weight spellings of a coding the rule does not use and that is the only one listed
				}
				be := mkBackend(200, "cl", 0, nil, text100, whole)
				runCase("G", []*c54req{{method: "GET", proto: "1.1", ae: ae, rule: ru, bodyID: "t100", backend: be}})
			}
		}
	}

	// ---- family A: negotiation — Accept-Encoding x rule x backend Content-Encoding x status x
	//      backend framing x method x client protocol x cluster, small fixed bodies. The axes
	//      beside Accept-Encoding/rule/Content-Encoding are crossed with each other only for the
	//      plain backend (no Content-Encoding) in the quick tier.
	type stat struct {
		status   int
		framings []string
	}
	stats := []stat{
		{200, []string{"cl", "chunked", "close"}},
		{404, []string{"cl"}},
		{206, []string{"chunked"}},
		{204, []string{"none", "cl0"}},
		{304, []string{"none", "clN"}},
	}
	protos := []string{"1.1", "1.0", "1.0ka"}
	for _, ae := range c54aeAlphabet {
		for _, ru := range []c54rule{gz, bro, none} {
			for _, ce := range c54ceAlphabet {
				for _, st := range stats {
					for _, fm := range st.framings {
						for _, method := range []string{"GET", "HEAD"} {
							for _, proto := range protos {
								for _, nobuf := range []bool{false, true} {
									base := method == "GET" && proto == "1.1" && !nobuf
									if !base && ce != nil && (!thorough || st.status != 200) {
										continue
									}
									if st.status != 200 && nobuf {
										continue
									}
									if !thorough && ru.cmd == "" && !base {
										continue
									}
									for _, bk := range []struct {
										id string
										b  []byte
									}{{"t100", text100}, {"z0", nil}} {
										if bk.id == "z0" && (ce != nil || st.status != 200 || fm == "chunked") {
											continue
										}
										be := mkBackend(st.status, fm, 0, ce, bk.b, whole)
										runCase("A", []*c54req{{method: method, proto: proto, ae: ae, rule: ru, nobuf: nobuf, bodyID: bk.id, backend: be}})
									}
								}
							}
						}
					}
				}
			}
		}
	}

	// ---- family C: exhaustive small bodies over a 4-symbol alphabet x every composition of the
	//      body into backend reads x EOF flavour (bodies are far below the smallest flush size:
	//      the single-flush and the close-only paths).
	maxLen := r.Pick(4, 5)
	alpha := []byte{'a', 0x00, 0xff, '\n'}
	var bodies [][]byte
	var gen func(cur []byte)
	gen = func(cur []byte) {
		bodies = append(bodies, append([]byte(nil), cur...))
		if len(cur) == maxLen {
			return
		}
		for _, c := range alpha {
			gen(append(cur, c))
		}
	}
	gen(nil)
	for _, body := range bodies {
		n := len(body)
		ncomp := 1
		if n > 1 {
			ncomp = 1 << uint(n-1)
		}
		for mask := 0; mask < ncomp; mask++ {
			// quick: longer bodies get every composition only when they are all 'a'
			if !thorough && n > 3 && mask != 0 && mask != ncomp-1 && bytes.Count(body, []byte{'a'}) != n {
				continue
			}
			sizes := []int{}
			run := 1
			for i := 0; i < n-1; i++ {
				if mask&(1<<uint(i)) != 0 {
					sizes = append(sizes, run)
					run = 1
				} else {
					run++
				}
			}
			for _, ru := range []c54rule{{"GZIP", -1, 64}, {"BROTLI", 5, 64}} {
				for _, fm := range []string{"cl", "close"} {
					for _, eofWith := range []bool{false, true} {
						fr := c54fragSpec{hdrSep: mask&1 == 0, sizes: sizes, eofWith: eofWith}
						be := mkBackend(200, fm, 0, nil, body, fr)
						runCase("C", []*c54req{{method: "GET", proto: "1.1", ae: both, rule: ru, bodyID: "x" + fmt.Sprintf("%x", body), backend: be}})
					}
				}
			}
		}
	}

	// ---- family S: every split of bodies around the flush size into two (thorough: three)
	//      backend reads — the read that straddles a flush boundary.
	for _, ru := range []c54rule{{"GZIP", 1, 64}, {"BROTLI", 1, 64}} {
		for _, n := range []int{63, 64, 65, 127, 128, 129, 130} {
			body := c54body('t', n)
			for a := 1; a < n; a++ {
				for b := 0; a+b < n; b++ {
					if b > 0 && (!thorough || (n != 64 && n != 65 && n != 128)) {
						break
					}
					sizes := []int{a}
					if b > 0 {
						sizes = []int{a, b}
					}
					for _, fm := range []string{"cl", "close"} {
						if b > 0 && fm == "close" {
							continue
						}
						fr := c54fragSpec{hdrSep: true, sizes: sizes, eofWith: a%2 == 0}
						be := mkBackend(200, fm, 0, nil, body, fr)
						runCase("S", []*c54req{{method: "GET", proto: "1.1", ae: both, rule: ru, bodyID: fmt.Sprintf("t%d", n), backend: be}})
					}
				}
			}
		}
	}

	// ---- family F: 3 compressed responses alive at once; every sequence of `depth` events over
	//      {read X, close X (up to twice, also before EOF), start next} followed by the
	//      round-robin completion. Every history is executed twice; the pool-like caches a
	//      module may keep (sync.Pool) are emptied before each execution (two GC cycles), so
	//      an execution depends on its own history only.
	for _, fc := range []struct {
		ru    c54rule
		depth int
	}{
		{c54rule{"GZIP", 1, 64}, r.Pick(6, 8)},
		{c54rule{"GZIP", 6, 100}, r.Pick(5, 6)},
		{c54rule{"BROTLI", 1, 64}, r.Pick(4, 5)},
	} {
		if only != "" && only != "F" {
			break
		}
		fc := fc
		name := "F:" + fc.ru.name()
		vk.ExploreSharded(r, name, 2, -1, func(ch *vk.Chooser) {
			var first []c54fev
			var all []c54verdict
			for pass := 0; pass < 2; pass++ {
				runtime.GC()
				runtime.GC()
				var hist []c54fev
				var vs []c54verdict
				var skipped bool
				step := 0
				pan, val := vk.Guard(func() {
					hist, vs, skipped = h.frun(fc.ru, fc.depth, func(n int) int {
						if pass == 0 {
							k := ch.Choose(n)
							if ch.Skipped {
								return -1
							}
							return k
						}
						k := ch.Trace()[step]
						step++
						return k
					}, func(c string) {
						r.Outcome(c)
					})
				})
				if skipped {
					return
				}
				if pan && strings.Contains(val, "c54 harness:") {
					panic(val)
				}
				if pan {
					r.Outcome("F:panic")
					nPanics++
					r.Sample(map[string]string{"panic": val, "case": ch.CaseID(name)})
					vs = append(vs, c54verdict{sig: "body:" + fc.ru.enc() + ":concurrent-responses:panic-in-filter:" + vk.PanicSite(val), detail: val})
				}
				if pass == 0 {
					first = hist
				}
				all = append(all, vs...)
			}
			id := ch.CaseID(name)
			famE["F"]++
			if !r.Case(id) {
				return
			}
			famN["F"]++
			r.Nontrivial(id)
			if nSamples["F"] < 2 {
				nSamples["F"]++
				r.Sample(map[string]interface{}{"case": id, "history": fmt.Sprint(first), "violations": len(all)})
			}
			for _, v := range all {
				r.Violation(v.sig, id, fmt.Sprintf("history %v: %s", first, v.detail))
			}
		}, func() bool { return stop || r.Expired("enumeration (family F)") })
	}

	// ---- family R: consumer read patterns x body kinds x sizes around the flush size x flush
	//      size x coding/level, on the filter installed by the real module.
	{
		rRules := []c54rule{{"GZIP", 1, 0}, {"BROTLI", 1, 0}, {"GZIP", 6, 0}, {"BROTLI", 5, 0}}
		if thorough {
			rRules = append(rRules, c54rule{"GZIP", -2, 0}, c54rule{"GZIP", 0, 0}, c54rule{"GZIP", 9, 0}, c54rule{"BROTLI", 0, 0}, c54rule{"BROTLI", 9, 0}, c54rule{"BROTLI", 11, 0})
		}
		for _, f := range []int{64, 512, 1024, 4096} {
			sizes := []int{0, 1, 3, f - 1, f, f + 1, 2 * f, 2*f + 1, 5 * f, 5*f + 3}
			if thorough {
				sizes = append(sizes, 2*f-1, 3*f, 9*f+1)
			}
			for ri, ru0 := range rRules {
				ru := ru0
				ru.f = f
				for _, n := range sizes {
					for _, kind := range []byte{'t', 'z', 'r', 'c'} {
						if n <= 3 && kind != 't' && kind != 'r' {
							continue
						}
						if !thorough && ri >= 2 && (kind == 'z' || (kind == 't' && n > 2*f+1)) {
							continue
						}
						heavy := ru.cmd == "BROTLI" && ru.q >= 9
						if heavy && (kind == 'z' || kind == 't') && n != 5*f {
							continue
						}
						body := c54body(kind, n)
						for _, pt := range c54patterns {
							if pt.size != nil && pt.size(0) == 1 && pt.size(1) == 1 && n > 2*f+1 && f >= 1024 {
								continue // one-byte reads of tens of KB: covered at the smaller flush sizes
							}
							if heavy && pt.class != "readall" && pt.class != "small-reads" && pt.class != "large-reads" {
								continue
							}
							idx++
							famE["R"]++
							if stop || !r.Mine(idx) || (only != "" && only != "R") {
								continue
							}
							id := fmt.Sprintf("R{r=%s body=%c%d reads=%s}", ru.name(), kind, n, pt.name)
							if !r.Case(id) {
								continue
							}
							t0 := time.Now()
							var vs []c54verdict
							pan, val := vk.Guard(func() { vs = h.rrun(ru, kind, body, pt, r.Outcome) })
							famN["R"]++
							famT["R"] += time.Since(t0)
							if pan {
								if strings.Contains(val, "c54 harness:") {
									panic(val)
								}
								r.Outcome("R:panic")
								nPanics++
								r.Sample(map[string]string{"panic": val, "case": id})
								vs = append(vs, c54verdict{sig: "reader:" + ru.enc() + ":panic-in-filter:" + vk.PanicSite(val), detail: val})
							}
							r.Nontrivial(id)
							if nSamples["R"] < 1 && r.Mine(0) {
								nSamples["R"]++
								r.Sample(map[string]interface{}{"case": id, "violations": len(vs)})
							}
							for _, v := range vs {
								r.Violation(v.sig, id, v.detail)
							}
							if famN["R"]%64 == 0 && r.Expired("enumeration (family R)") {
								stop = true
							}
						}
					}
				}
			}
		}
	}

	// ---- family B: body length x content x backend chunking x level x flush size.
	//      (brotli levels >= 6 allocate tens of MB per response: they get the reduced grid
	//      "text body, whole/flush-sized reads" outside the thorough tier's main flush sizes.)
	contents := []byte{'t', 'z', 'r', 'g'}
	framings := []string{"cl", "chunked", "close", "h10"}
	for _, ru := range c54allRules() {
		f := ru.f
		if f == 1024 {
			continue // flush size 1024 belongs to family R
		}
		lv := (ru.cmd == "GZIP" && (ru.q == -1 || ru.q == 0)) || (ru.cmd == "BROTLI" && (ru.q == 0 || ru.q == 5))
		lv2 := lv || (ru.cmd == "GZIP" && (ru.q == -2 || ru.q == 9)) || (ru.cmd == "BROTLI" && ru.q == 11)
		heavy := ru.cmd == "BROTLI" && ru.q >= 6
		reduced := false
		if !thorough {
			// quick: every level at flush 64; six levels at 4096; four levels at the other sizes
			if !(f == 64 || (f == 4096 && lv2) || lv) {
				continue
			}
			reduced = heavy || (ru.cmd == "BROTLI" && (ru.q == 3 || ru.q == 4))
		} else {
			// thorough: every level at 64 and 4096; six levels at the other sizes
			if !(f == 64 || f == 4096 || lv2) {
				continue
			}
			reduced = heavy && f != 64
		}
		lens := []int{0, 1, 2, f - 1, f, f + 1, 2*f - 1, 2 * f, 2*f + 1, 3*f + 5}
		if thorough {
			lens = append(lens, f/2, 3*f, 4*f+1, 8*f)
		}
		for _, n := range lens {
			for _, kind := range contents {
				if reduced && kind != 't' {
					continue
				}
				body := c54body(kind, n)
				bodyID := fmt.Sprintf("%c%d", kind, n)
				ks := []int{0, 1, f - 1, f, f + 1, 2*f + 1}
				if n > 2*f+1 && f > 512 {
					ks[1] = 7
				}
				for _, k := range ks {
					if k > n && k != 0 {
						continue
					}
					main := k == 0 || k == f
					if kind == 'g' && (k != 0 || n > f+1) {
						continue
					}
					if (!thorough && kind != 't' || reduced) && !main {
						continue
					}
					for _, fm := range framings {
						if fm == "h10" && (!thorough || !main) {
							continue
						}
						for _, eofWith := range []bool{false, true} {
							if eofWith && (reduced || (!main && !thorough)) {
								continue
							}
							for _, nobuf := range []bool{false, true} {
								if nobuf && (!main || reduced || (!thorough && kind != 't')) {
									continue
								}
								fr := c54fragSpec{hdrSep: k != 0, k: k, eofWith: eofWith}
								be := mkBackend(200, fm, k, nil, body, fr)
								runCase("B", []*c54req{{method: "GET", proto: "1.1", ae: both, rule: ru, nobuf: nobuf, bodyID: bodyID, backend: be}})
							}
						}
					}
				}
			}
		}
	}

	// ---- family D: large bodies (70 000 bytes and around the 32 KiB copy buffer).
	bigLens := []int{32767, 32768, 32769, 70000}
	for _, ru := range c54allRules() {
		if ru.f != 64 && ru.f != 4096 && ru.f != 4095 {
			continue
		}
		if ru.f == 4095 && !thorough {
			continue
		}
		if !thorough {
			if ru.cmd == "GZIP" && ru.q != -2 && ru.q != -1 && ru.q != 0 && ru.q != 1 && ru.q != 9 {
				continue
			}
			if ru.cmd == "BROTLI" && ru.q != 0 && ru.q != 5 && ru.q != 11 {
				continue
			}
		}
		for _, n := range bigLens {
			if n != 70000 && (ru.f != 4096 || (ru.cmd == "BROTLI" && ru.q >= 6 && (!thorough || n != 32768))) {
				continue
			}
			for _, kind := range []byte{'z', 't', 'r'} {
				if ru.cmd == "BROTLI" && ru.q >= 6 && kind != 't' && (!thorough || ru.f == 4095) {
					continue
				}
				body := c54body(kind, n)
				for _, k := range []int{0, 1000, 4096, 32769} {
					if (k == 1000 || k == 32769) && kind != 't' {
						continue
					}
					for _, fm := range []string{"cl", "chunked", "close"} {
						if !thorough && fm == "close" && kind != 't' {
							continue
						}
						for _, nobuf := range []bool{false, true} {
							if nobuf && k != 4096 {
								continue
							}
							fr := c54fragSpec{hdrSep: k != 0, k: k, eofWith: k == 1000}
							be := mkBackend(200, fm, k, nil, body, fr)
							runCase("D", []*c54req{{method: "GET", proto: "1.1", ae: both, rule: ru, nobuf: nobuf, bodyID: fmt.Sprintf("%c%d", kind, n), backend: be}})
						}
					}
				}
			}
		}
	}

	r.Set("bounds", fmt.Sprintf("AE values %d, backend Content-Encoding values %d, rules %d (gzip -2..9, brotli 0..11 x flush %v), small bodies <=%d over 4 symbols x all read compositions, bodies up to 70000 bytes, pipelines of <=%d requests over %d kinds",
		len(c54aeAlphabet), len(c54ceAlphabet), len(c54allRules()), c54flushSizes, maxLen, depth, len(kinds)))
	r.Set("cases_enumerated", idx)
	r.Set("panics", nPanics)
	fs := map[string]string{}
	for k, e := range famE {
		fs[k] = fmt.Sprintf("%d cases run by this shard, %.1fs (enumerated by all shards: %d)", famN[k], famT[k].Seconds(), e)
	}
	r.Set("family_cost", fs)
}
