//go:build verif

package bfe_tls

// C41 — TLS negotiation picks mutually supported parameters and resists downgrade.
//
// Engine E4 (bounded-exhaustive enumeration of server configurations x client hellos). Every case
// is one (or two, for resumption) real handshakes between the real bfe_tls server (Server +
// Conn.Handshake, private fields read afterwards) and
//   - the Go standard library crypto/tls client (the "standard client"), or
//   - a hand-marshalled ClientHello (in-package clientHelloMsg) driven to completion by a lenient
//     in-package client (built from bfe_tls's own clientHandshakeState steps) for what the
//     standard client cannot send: TLS_FALLBACK_SCSV, ECDHE without the curve / point-format
//     extensions, SSL 3.0 hellos, a chosen suite order.
// over an in-memory buffered duplex connection. The ClientHello that was really on the wire is
// sniffed and parsed; the oracle (c41judge) is written from the property statement only.

import (
	"crypto/ecdsa"
	"crypto/elliptic"
	"crypto/rand"
	"crypto/rsa"
	stdtls "crypto/tls"
	"crypto/x509"
	"crypto/x509/pkix"
	"encoding/pem"
	"errors"
	"fmt"
	"io"
	"math/big"
	"net"
	"reflect"
	"strings"
	"sync"
	"testing"
	"time"

	"github.com/bfenetworks/bfe/verifkit/vk"
)

// ---------------------------------------------------------------------------------------------
// in-memory buffered duplex connection (net.Pipe is unbuffered: an alert sent while the peer is
// still writing its flight would deadlock)

type c41half struct {
	mu     sync.Mutex
	cond   *sync.Cond
	buf    []byte
	closed bool
}

func c41newHalf() *c41half { h := &c41half{}; h.cond = sync.NewCond(&h.mu); return h }

type c41conn struct {
	rd, wr *c41half
	sniff  []byte // copy of everything written through this end (bounded)
	name   string
}

func c41pipe() (cli, srv *c41conn) {
	a, b := c41newHalf(), c41newHalf()
	return &c41conn{rd: a, wr: b, name: "client"}, &c41conn{rd: b, wr: a, name: "server"}
}

func (c *c41conn) Read(p []byte) (int, error) {
	h := c.rd
	h.mu.Lock()
	defer h.mu.Unlock()
	for len(h.buf) == 0 && !h.closed {
		h.cond.Wait()
	}
	if len(h.buf) == 0 {
		return 0, io.EOF
	}
	n := copy(p, h.buf)
	h.buf = h.buf[n:]
	return n, nil
}

func (c *c41conn) Write(p []byte) (int, error) {
	h := c.wr
	h.mu.Lock()
	defer h.mu.Unlock()
	if h.closed {
		return 0, io.ErrClosedPipe
	}
	h.buf = append(h.buf, p...)
	if len(c.sniff) < 8192 {
		c.sniff = append(c.sniff, p...)
	}
	h.cond.Broadcast()
	return len(p), nil
}

func (c *c41conn) Close() error {
	for _, h := range []*c41half{c.rd, c.wr} {
		h.mu.Lock()
		h.closed = true
		h.cond.Broadcast()
		h.mu.Unlock()
	}
	return nil
}

type c41addr string

func (a c41addr) Network() string { return "tcp" }
func (a c41addr) String() string  { return string(a) }

func (c *c41conn) LocalAddr() net.Addr                { return c41addr("10.0.0.1:443") }
func (c *c41conn) RemoteAddr() net.Addr               { return c41addr("10.0.0.2:443") }
func (c *c41conn) SetDeadline(t time.Time) error      { return nil }
func (c *c41conn) SetReadDeadline(t time.Time) error  { return nil }
func (c *c41conn) SetWriteDeadline(t time.Time) error { return nil }

// ---------------------------------------------------------------------------------------------
// keys (generated once per process; not part of any case id)

var (
	c41keyOnce sync.Once
	c41rsaCert Certificate
	c41ecCert  Certificate
)

func c41mkCert(priv interface{}, pub interface{}, der func() ([]byte, error)) Certificate {
	tmpl := &x509.Certificate{
		SerialNumber: big.NewInt(41),
		Subject:      pkix.Name{CommonName: "c41.test"},
		NotBefore:    time.Unix(1500000000, 0),
		NotAfter:     time.Unix(4000000000, 0),
		KeyUsage:     x509.KeyUsageDigitalSignature | x509.KeyUsageKeyEncipherment,
		ExtKeyUsage:  []x509.ExtKeyUsage{x509.ExtKeyUsageServerAuth},
		DNSNames:     []string{"rule.test", "other.test", "c41.test"},
	}
	certDER, err := x509.CreateCertificate(rand.Reader, tmpl, tmpl, pub, priv)
	if err != nil {
		panic(err)
	}
	keyDER, err := der()
	if err != nil {
		panic(err)
	}
	typ := "RSA PRIVATE KEY"
	if _, ok := priv.(*ecdsa.PrivateKey); ok {
		typ = "EC PRIVATE KEY"
	}
	cert, err := X509KeyPair(pem.EncodeToMemory(&pem.Block{Type: "CERTIFICATE", Bytes: certDER}),
		pem.EncodeToMemory(&pem.Block{Type: typ, Bytes: keyDER}))
	if err != nil {
		panic(err)
	}
	return cert
}

func c41keys() {
	c41keyOnce.Do(func() {
		rk, err := rsa.GenerateKey(rand.Reader, 2048)
		if err != nil {
			panic(err)
		}
		c41rsaCert = c41mkCert(rk, &rk.PublicKey, func() ([]byte, error) { return x509.MarshalPKCS1PrivateKey(rk), nil })
		ek, err := ecdsa.GenerateKey(elliptic.P256(), rand.Reader)
		if err != nil {
			panic(err)
		}
		c41ecCert = c41mkCert(ek, &ek.PublicKey, func() ([]byte, error) { return x509.MarshalECPrivateKey(ek) })
	})
}

// ---------------------------------------------------------------------------------------------
// alphabets

// suite menus (bit i of a mask = menu[i])
var c41menuRSA = []uint16{
	TLS_ECDHE_RSA_WITH_AES_128_GCM_SHA256,       // 0 ECDHE GCM (TLS1.2 only)
	TLS_ECDHE_RSA_WITH_CHACHA20_POLY1305_SHA256, // 1 ECDHE ChaCha (TLS1.2 only, rule flag)
	TLS_ECDHE_RSA_WITH_AES_128_CBC_SHA,          // 2 ECDHE CBC
	TLS_ECDHE_RSA_WITH_RC4_128_SHA,              // 3 ECDHE RC4 (grade)
	TLS_RSA_WITH_AES_128_CBC_SHA,                // 4 RSA CBC
	TLS_RSA_WITH_RC4_128_SHA,                    // 5 RSA RC4 (grade)
}

// menu for an ECDSA certificate; bit positions mean the same as in the RSA menu where possible
var c41menuEC = []uint16{
	TLS_ECDHE_ECDSA_WITH_AES_128_GCM_SHA256,       // 0 ECDSA GCM (TLS1.2 only)
	TLS_ECDHE_ECDSA_WITH_CHACHA20_POLY1305_SHA256, // 1 ECDSA ChaCha (TLS1.2 only, rule flag)
	TLS_ECDHE_ECDSA_WITH_AES_128_CBC_SHA,          // 2 ECDSA CBC
	TLS_ECDHE_ECDSA_WITH_RC4_128_SHA,              // 3 ECDSA RC4 (grade)
	TLS_RSA_WITH_AES_128_CBC_SHA,                  // 4 needs an RSA certificate
	TLS_ECDHE_RSA_WITH_AES_128_GCM_SHA256,         // 5 needs an RSA certificate
}

const (
	c41ruleName  = "rule.test"
	c41otherName = "other.test"
)

// protocol lists (ordered, no repetition) over {h2, spdy/3.1, http/1.1}
var c41protoLists = func() [][]string {
	ps := []string{"h2", "spdy/3.1", "http/1.1"}
	out := [][]string{nil}
	for i := range ps {
		out = append(out, []string{ps[i]})
	}
	for i := range ps {
		for j := range ps {
			if i != j {
				out = append(out, []string{ps[i], ps[j]})
			}
		}
	}
	for i := range ps {
		for j := range ps {
			for k := range ps {
				if i != j && j != k && i != k {
					out = append(out, []string{ps[i], ps[j], ps[k]})
				}
			}
		}
	}
	return out
}()

func c41protoIdx(l ...string) int {
	for i, p := range c41protoLists {
		if strings.Join(p, ",") == strings.Join(l, ",") {
			return i
		}
	}
	panic("c41: unknown proto list")
}

var c41versions = []uint16{0, VersionSSL30, VersionTLS10, VersionTLS11, VersionTLS12}

// all (min,max) pairs a bfe configuration can carry (bfe_conf.tlsVersionCheck rejects max<min);
// 0 = left at the default.
func c41ranges() [][2]uint16 {
	var out [][2]uint16
	for _, mn := range c41versions {
		for _, mx := range c41versions {
			emn, emx := mn, mx
			if emn == 0 {
				emn = VersionSSL30
			}
			if emx == 0 {
				emx = VersionTLS12
			}
			if emn <= emx {
				out = append(out, [2]uint16{mn, mx})
			}
		}
	}
	return out
}

// ---------------------------------------------------------------------------------------------
// server specification

type c41srv struct {
	min, max uint16 // 0 = default
	ec       bool   // ECDSA certificate + EC menu
	suites   int    // mask over the menu; -1 = CipherSuites left nil (package default list)
	rev      bool   // configured list in reversed menu order
	pref     int    // 0 client preference, 1 server preference, 2 server preference with equivalence groups
	np       int    // Config.NextProtos (index into c41protoLists)
	rnp      int    // Rule.NextProtos for connections matching the rule
	grade    string // "" = no ServerRule at all; else the rule for SNI rule.test has this grade
	chacha   bool   // Rule.Chacha20
	poodle   bool   // Config.Ssl3PoodleProofed
	ticket   bool   // session tickets enabled
	p256     bool   // Config.CurvePreferences = [P-256] instead of the default P-256/384/521
}

func (s c41srv) String() string {
	return fmt.Sprintf("min=%04x,max=%04x,ec=%v,ss=%d,rev=%v,pref=%d,np=%d,rnp=%d,gr=%s,cha=%v,poo=%v,tk=%v,p256=%v",
		s.min, s.max, s.ec, s.suites, s.rev, s.pref, s.np, s.rnp, s.grade, s.chacha, s.poodle, s.ticket, s.p256)
}

func (s c41srv) menu() []uint16 {
	if s.ec {
		return c41menuEC
	}
	return c41menuRSA
}

func c41maskList(menu []uint16, mask int, rev bool) []uint16 {
	out := []uint16{}
	for i := range menu {
		j := i
		if rev {
			j = len(menu) - 1 - i
		}
		if mask&(1<<uint(j)) != 0 {
			out = append(out, menu[j])
		}
	}
	return out
}

type c41np []string

func (n c41np) Get(c *Conn) []string { return []string(n) }

type c41rules map[string]*Rule

func (m c41rules) Get(c *Conn) *Rule { return m[c.serverName] }

func (s c41srv) config() *Config {
	c41keys()
	cfg := &Config{
		MinVersion:               s.min,
		MaxVersion:               s.max,
		PreferServerCipherSuites: s.pref != 0,
		NextProtos:               c41protoLists[s.np],
		Ssl3PoodleProofed:        s.poodle,
		SessionTicketsDisabled:   !s.ticket,
		SessionCacheDisabled:     true,
	}
	// a fixed ticket key (as bfe_server loads it from session_ticket_key.data): two
	// configurations of one case share it, like a rule reload or two rules of one server do
	for i := range cfg.SessionTicketKey {
		cfg.SessionTicketKey[i] = byte(0x41 + i)
	}
	copy(cfg.SessionTicketKeyName[:], "c41-ticket-key--")
	if s.ec {
		cfg.Certificates = []Certificate{c41ecCert}
	} else {
		cfg.Certificates = []Certificate{c41rsaCert}
	}
	if s.p256 {
		cfg.CurvePreferences = []CurveID{CurveP256}
	}
	if s.suites >= 0 {
		cfg.CipherSuites = c41maskList(s.menu(), s.suites, s.rev)
	}
	if s.pref == 2 {
		// equivalence groups of two neighbours, as bfe_conf.GetCipherSuites builds from "a|b" groups
		l := cfg.cipherSuites()
		cfg.CipherSuitesPriority = make([]uint16, len(l))
		for i := range l {
			cfg.CipherSuitesPriority[i] = uint16(i / 2)
		}
	}
	if s.grade != "" {
		cfg.ServerRule = c41rules{c41ruleName: &Rule{
			NextProtos: c41np(c41protoLists[s.rnp]),
			Grade:      s.grade,
			Chacha20:   s.chacha,
		}}
	}
	return cfg
}

// ---------------------------------------------------------------------------------------------
// observation of one handshake

type c41obs struct {
	timeout  bool
	hello    *clientHelloMsg // what the client really sent (parsed from the wire); nil if none
	sErr     error
	cErr     error
	sPanic   string
	sDone    bool // server side completed the handshake
	cDone    bool
	sVers    uint16
	sSuite   uint16
	sProto   string
	sResumed bool
	cVers    uint16
	cSuite   uint16
	cProto   string
	cResumed bool
	sData    string // "" = 1 KiB client->server arrived intact at the server and reply written
	cData    string // "" = 1 KiB server->client arrived intact at the client
	cTicket  bool   // the (hand-marshalled) client received a NewSessionTicket
}

var c41msgC, c41msgS = func() ([]byte, []byte) {
	a, b := make([]byte, 1024), make([]byte, 1024)
	for i := range a {
		a[i] = byte(i*7 + 3)
		b[i] = byte(i*13 + 5)
	}
	return a, b
}()

func c41eq(a, b []byte) bool { return string(a) == string(b) }

// c41serve runs the real server side on conn.
func c41serve(conn net.Conn, mk func(net.Conn) *Conn, o *c41obs) {
	defer conn.Close()
	s := mk(conn)
	var err error
	if p, val := vk.Guard(func() { err = s.Handshake() }); p {
		o.sPanic = val
		o.sErr = errors.New("panic in server handshake")
		return
	}
	o.sErr = err
	if err != nil {
		return
	}
	// private fields: the state the server really uses for this connection
	o.sDone = s.handshakeComplete
	o.sVers, o.sSuite, o.sProto, o.sResumed = s.vers, s.cipherSuite, s.clientProtocol, s.didResume
	buf := make([]byte, len(c41msgC))
	if _, err := io.ReadFull(s, buf); err != nil {
		o.sData = "server read: " + err.Error()
		return
	}
	if !c41eq(buf, c41msgC) {
		o.sData = "server received different bytes"
		return
	}
	if _, err := s.Write(c41msgS); err != nil {
		o.sData = "server write: " + err.Error()
		return
	}
	s.Close()
}

// c41clientFn performs the client side on conn and fills the c* fields of o.
type c41clientFn func(conn net.Conn, o *c41obs)

const c41caseDeadline = 30 * time.Second

// c41handshake runs one connection: server and client goroutines over a fresh pipe.
func c41handshake(cfg *Config, client c41clientFn) *c41obs {
	return c41handshakeVia(func(conn net.Conn) *Conn { return Server(conn, cfg) }, client)
}

// configuration life cycle: how the Config a connection is served with was produced
const (
	c41lifeOriginal = iota // the Config as built
	c41lifeClone           // Config.Clone()
	c41lifeRotate1         // real listener (NewListener / Accept) after one session-ticket-key reload
	c41lifeRotate2         // ... after two reloads (clone of a clone)
	c41lifeCount
)

var c41lifeNames = []string{"original", "clone", "ticket-key-reload", "ticket-key-reload-x2"}

type c41inner struct{ ch chan net.Conn }

func (l *c41inner) Accept() (net.Conn, error) { return <-l.ch, nil }
func (l *c41inner) Close() error              { return nil }
func (l *c41inner) Addr() net.Addr            { return c41addr("10.0.0.1:443") }

// c41served returns the connection factory for cfg in the given life-cycle stage. The reload
// stages repeat the steps of bfe_server.HttpsListener.UpdateSessionTicketKey on the real
// bfe_tls listener: Clone, copy key name and key, UpdateListener; connections then come out of
// the listener's Accept.
func c41served(cfg *Config, life int) func(net.Conn) *Conn {
	switch life {
	case c41lifeOriginal:
		return func(conn net.Conn) *Conn { return Server(conn, cfg) }
	case c41lifeClone:
		cl := cfg.Clone()
		return func(conn net.Conn) *Conn { return Server(conn, cl) }
	}
	inner := &c41inner{ch: make(chan net.Conn, 1)}
	ln := NewListener(inner, cfg)
	cur := cfg
	for i := 0; i <= life-c41lifeRotate1; i++ {
		key := make([]byte, 48)
		for j := range key {
			key[j] = byte(0x90 + 16*i + j)
		}
		config := cur.Clone()
		copy(config.SessionTicketKeyName[:], key[:16])
		copy(config.SessionTicketKey[:], key[16:])
		cur = config
		if err := UpdateListener(ln, config); err != nil {
			panic(err)
		}
	}
	return func(conn net.Conn) *Conn {
		inner.ch <- conn
		c, err := ln.Accept()
		if err != nil {
			panic(err)
		}
		return c.(*Conn)
	}
}

func c41handshakeVia(mk func(net.Conn) *Conn, client c41clientFn) *c41obs {
	o := &c41obs{}
	cc, sc := c41pipe()
	var wg sync.WaitGroup
	wg.Add(2)
	go func() { defer wg.Done(); c41serve(sc, mk, o) }()
	go func() { defer wg.Done(); defer cc.Close(); client(cc, o) }()
	done := make(chan struct{})
	go func() { wg.Wait(); close(done) }()
	tm := time.NewTimer(c41caseDeadline)
	select {
	case <-done:
		tm.Stop()
	case <-tm.C:
		o2 := &c41obs{timeout: true}
		cc.Close()
		sc.Close()
		select {
		case <-done:
		case <-time.After(c41caseDeadline):
		}
		return o2
	}
	o.hello = c41parseHello(cc.sniff)
	return o
}

// c41parseHello extracts the first ClientHello from the bytes the client wrote.
func c41parseHello(b []byte) *clientHelloMsg {
	if len(b) < 5 || recordType(b[0]) != recordTypeHandshake {
		return nil
	}
	n := int(b[3])<<8 | int(b[4])
	if len(b) < 5+n || n < 4 || b[5] != typeClientHello {
		return nil
	}
	m := new(clientHelloMsg)
	if !m.unmarshal(append([]byte(nil), b[5:5+n]...)) {
		return nil
	}
	return m
}

// ---------------------------------------------------------------------------------------------
// the standard client: Go crypto/tls

type c41cli struct {
	max    uint16 // 0x0301..0x0304
	suites int    // mask over the server spec's menu (never 0)
	curves int    // index into c41stdCurves
	alpn   int    // index into c41protoLists
	sni    int    // 0 none, 1 rule.test, 2 other.test
	cache  bool   // client session cache: the case is two consecutive connections
}

func (c c41cli) String() string {
	return fmt.Sprintf("std:max=%04x,ss=%d,cv=%d,alpn=%d,sni=%d,cache=%v", c.max, c.suites, c.curves, c.alpn, c.sni, c.cache)
}

var c41stdCurves = [][]stdtls.CurveID{
	{stdtls.X25519, stdtls.CurveP256},
	{stdtls.CurveP256},
	{stdtls.CurveP384, stdtls.CurveP521},
	{stdtls.X25519}, // no curve in common with bfe_tls
}

func c41sniName(i int) string {
	switch i {
	case 1:
		return c41ruleName
	case 2:
		return c41otherName
	}
	return ""
}

func (c c41cli) config(menu []uint16) *stdtls.Config {
	cfg := &stdtls.Config{
		InsecureSkipVerify: true,
		MinVersion:         stdtls.VersionTLS10,
		MaxVersion:         c.max,
		CipherSuites:       c41maskList(menu, c.suites, false),
		CurvePreferences:   c41stdCurves[c.curves],
		NextProtos:         c41protoLists[c.alpn],
		ServerName:         c41sniName(c.sni),
	}
	if c.cache {
		cfg.ClientSessionCache = stdtls.NewLRUClientSessionCache(4)
	}
	return cfg
}

func c41stdClient(cfg *stdtls.Config) c41clientFn {
	return func(conn net.Conn, o *c41obs) {
		c := stdtls.Client(conn, cfg)
		o.cErr = c.Handshake()
		if o.cErr != nil {
			return
		}
		st := c.ConnectionState()
		o.cDone = st.HandshakeComplete
		o.cVers, o.cSuite, o.cProto, o.cResumed = st.Version, st.CipherSuite, st.NegotiatedProtocol, st.DidResume
		if _, err := c.Write(c41msgC); err != nil {
			o.cData = "client write: " + err.Error()
			return
		}
		buf := make([]byte, len(c41msgS))
		if _, err := io.ReadFull(c, buf); err != nil {
			o.cData = "client read: " + err.Error()
			return
		}
		if !c41eq(buf, c41msgS) {
			o.cData = "client received different bytes"
		}
		c.Close()
	}
}

// ---------------------------------------------------------------------------------------------
// hand-marshalled hellos, completed by a lenient in-package client

type c41hcli struct {
	vers   uint16 // client_version of the hello (0x0300..0x0303)
	suites int    // mask over the menu
	rev    bool   // offered in reversed menu order
	scsv   int    // 0 absent, 1 TLS_FALLBACK_SCSV first, 2 last
	ecc    int    // 0 curves[P256]+points, 1 neither extension, 2 curves only, 3 points only, 4 curves[X25519]+points
	alpn   int
	sni    int
	resume int // 0 single connection without ticket support; 1 ticket support, single connection;
	// 2 two connections: the first (without SCSV, same version) obtains a ticket, the second
	// presents it (with the SCSV if scsv != 0)
}

func (c c41hcli) String() string {
	return fmt.Sprintf("raw:v=%04x,ss=%d,rev=%v,scsv=%d,ecc=%d,alpn=%d,sni=%d,res=%d", c.vers, c.suites, c.rev, c.scsv, c.ecc, c.alpn, c.sni, c.resume)
}

func (c c41hcli) hello(menu []uint16, withSCSV bool) *clientHelloMsg {
	h := &clientHelloMsg{
		vers:                c.vers,
		random:              make([]byte, 32),
		compressionMethods:  []uint8{compressionNone},
		serverName:          c41sniName(c.sni),
		secureRenegotiation: true,
		alpnProtocols:       c41protoLists[c.alpn],
		ticketSupported:     c.resume != 0,
	}
	rand.Read(h.random)
	h.cipherSuites = c41maskList(menu, c.suites, c.rev)
	if withSCSV {
		switch c.scsv {
		case 1:
			h.cipherSuites = append([]uint16{TLS_FALLBACK_SCSV}, h.cipherSuites...)
		case 2:
			h.cipherSuites = append(h.cipherSuites, TLS_FALLBACK_SCSV)
		}
	}
	switch c.ecc {
	case 0:
		h.supportedCurves, h.supportedPoints = []CurveID{CurveP256}, []uint8{pointFormatUncompressed}
	case 2:
		h.supportedCurves = []CurveID{CurveP256}
	case 3:
		h.supportedPoints = []uint8{pointFormatUncompressed}
	case 4:
		h.supportedCurves, h.supportedPoints = []CurveID{CurveID(29)}, []uint8{pointFormatUncompressed}
	}
	if c.vers >= VersionTLS12 {
		h.signatureAndHashes = supportedSKXSignatureAlgorithms
	}
	return h
}

func c41suiteByID(id uint16) *cipherSuite {
	for _, s := range cipherSuites {
		if s.id == id {
			return s
		}
	}
	return nil
}

// c41rawHandshake is bfe_tls's clientHandshake with the hello given by the caller and with every
// acceptance check of the server's choices removed (lenient: it follows whatever version, suite
// and ALPN protocol the server announces), so that a wrong choice by the server becomes visible
// as a completed handshake instead of being masked by the client.
func c41rawHandshake(c *Conn, hello *clientHelloMsg, session *ClientSessionState) (*ClientSessionState, error) {
	if session != nil {
		hello.sessionTicket = session.sessionTicket
		hello.sessionId = make([]byte, 16)
		rand.Read(hello.sessionId)
	}
	if _, err := c.writeRecord(recordTypeHandshake, hello.marshal()); err != nil {
		return nil, err
	}
	msg, err := c.readHandshake()
	if err != nil {
		return nil, err
	}
	serverHello, ok := msg.(*serverHelloMsg)
	if !ok {
		return nil, unexpectedMessageError(serverHello, msg)
	}
	if serverHello.vers < VersionSSL30 || serverHello.vers > VersionTLS12 {
		return nil, fmt.Errorf("c41 client: cannot speak version %x", serverHello.vers)
	}
	c.vers = serverHello.vers
	c.haveVers = true
	suite := c41suiteByID(serverHello.cipherSuite)
	if suite == nil {
		return nil, fmt.Errorf("c41 client: unknown suite %x", serverHello.cipherSuite)
	}
	hs := &clientHandshakeState{c: c, serverHello: serverHello, hello: hello, suite: suite,
		finishedHash: newFinishedHash(c.vers), session: session}
	hs.finishedHash.Write(hs.hello.marshal())
	hs.finishedHash.Write(hs.serverHello.marshal())
	isResume, err := hs.processServerHello()
	if err != nil {
		return nil, err
	}
	steps := []func() error{func() error { return c41rawFull(hs) }, hs.establishKeys, hs.sendFinished, hs.readSessionTicket, hs.readFinished}
	if isResume {
		steps = []func() error{hs.establishKeys, hs.readSessionTicket, hs.readFinished, hs.sendFinished}
	}
	for _, f := range steps {
		if err := f(); err != nil {
			return nil, err
		}
	}
	c.didResume = isResume
	c.handshakeComplete = true
	c.cipherSuite = suite.id
	c.clientProtocol = serverHello.alpnProtocol
	return hs.session, nil
}

// c41rawFull is clientHandshakeState.doFullHandshake without certificate verification and client
// certificates, and with the SSL 3.0 form of the RSA ClientKeyExchange (no length prefix).
func c41rawFull(hs *clientHandshakeState) error {
	c := hs.c
	msg, err := c.readHandshake()
	if err != nil {
		return err
	}
	certMsg, ok := msg.(*certificateMsg)
	if !ok || len(certMsg.certificates) == 0 {
		return unexpectedMessageError(certMsg, msg)
	}
	hs.finishedHash.Write(certMsg.marshal())
	certs := make([]*x509.Certificate, len(certMsg.certificates))
	for i, der := range certMsg.certificates {
		if certs[i], err = x509.ParseCertificate(der); err != nil {
			return err
		}
	}
	c.peerCertificates = certs
	if hs.serverHello.ocspStapling {
		if msg, err = c.readHandshake(); err != nil {
			return err
		}
		cs, ok := msg.(*certificateStatusMsg)
		if !ok {
			return unexpectedMessageError(cs, msg)
		}
		hs.finishedHash.Write(cs.marshal())
	}
	if msg, err = c.readHandshake(); err != nil {
		return err
	}
	ka := hs.suite.ka(c.vers)
	if skx, ok := msg.(*serverKeyExchangeMsg); ok {
		hs.finishedHash.Write(skx.marshal())
		if err = ka.processServerKeyExchange(c.config, hs.hello, hs.serverHello, certs[0], skx); err != nil {
			return err
		}
		if msg, err = c.readHandshake(); err != nil {
			return err
		}
	}
	shd, ok := msg.(*serverHelloDoneMsg)
	if !ok {
		return unexpectedMessageError(shd, msg)
	}
	hs.finishedHash.Write(shd.marshal())
	if _, isRSA := certs[0].PublicKey.(*rsa.PublicKey); !isRSA && hs.suite.flags&suiteECDHE == 0 {
		return errors.New("c41 client: RSA key exchange with a non-RSA certificate")
	}
	pms, ckx, err := ka.generateClientKeyExchange(c.config, hs.hello, certs[0])
	if err != nil {
		return err
	}
	if c.vers == VersionSSL30 && hs.suite.flags&suiteECDHE == 0 && len(ckx.ciphertext) > 2 {
		ckx.ciphertext = ckx.ciphertext[2:]
	}
	hs.finishedHash.Write(ckx.marshal())
	c.writeRecord(recordTypeHandshake, ckx.marshal())
	hs.masterSecret = masterFromPreMasterSecret(c.vers, pms, hs.hello.random, hs.serverHello.random)
	return nil
}

func c41rawClient(hello *clientHelloMsg, session *ClientSessionState, out **ClientSessionState) c41clientFn {
	return func(conn net.Conn, o *c41obs) {
		c := Client(conn, &Config{InsecureSkipVerify: true})
		var sess *ClientSessionState
		var err error
		if p, val := vk.Guard(func() { sess, err = c41rawHandshake(c, hello, session) }); p {
			err = errors.New("c41 client panic: " + val)
		}
		o.cErr = err
		if err != nil {
			return
		}
		if out != nil {
			*out = sess
		}
		o.cTicket = sess != nil
		o.cDone = true
		o.cVers, o.cSuite, o.cProto, o.cResumed = c.vers, c.cipherSuite, c.clientProtocol, c.didResume
		if _, err := c.Write(c41msgC); err != nil {
			o.cData = "client write: " + err.Error()
			return
		}
		buf := make([]byte, len(c41msgS))
		if _, err := io.ReadFull(c, buf); err != nil {
			o.cData = "client read: " + err.Error()
			return
		}
		if !c41eq(buf, c41msgS) {
			o.cData = "client received different bytes"
		}
		c.Close()
	}
}

// ---------------------------------------------------------------------------------------------
// the oracle: written from the property statement (and the documented meaning of the
// configuration knobs), never from the negotiation code.

func c41has16(l []uint16, x uint16) bool {
	for _, v := range l {
		if v == x {
			return true
		}
	}
	return false
}

func c41hasStr(l []string, x string) bool {
	for _, v := range l {
		if v == x {
			return true
		}
	}
	return false
}

func c41isRC4(id uint16) bool {
	return id == TLS_RSA_WITH_RC4_128_SHA || id == TLS_ECDHE_RSA_WITH_RC4_128_SHA || id == TLS_ECDHE_ECDSA_WITH_RC4_128_SHA
}

func c41isChacha(id uint16) bool {
	return id == TLS_ECDHE_RSA_WITH_CHACHA20_POLY1305_SHA256 || id == TLS_ECDHE_ECDSA_WITH_CHACHA20_POLY1305_SHA256
}

// every suite id the package implements (the meaning of "CipherSuites left nil"); written out,
// not read from the table under test.
var c41allSuites = []uint16{0xcca8, 0xcca9, 0xc02f, 0xc02b, 0xc011, 0xc007, 0xc013, 0xc009, 0xc014, 0xc00a,
	0x0005, 0x002f, 0x0035, 0xc012, 0x000a, 0xe019}

func c41vname(v uint16) string {
	switch v {
	case VersionSSL30:
		return "SSL3.0"
	case VersionTLS10:
		return "TLS1.0"
	case VersionTLS11:
		return "TLS1.1"
	case VersionTLS12:
		return "TLS1.2"
	}
	return fmt.Sprintf("%04x", v)
}

type c41verdict struct{ sig, detail string }

// c41judgeParams checks the parameters one side reports for a completed handshake.
func c41judgeParams(s c41srv, h *clientHelloMsg, side string, vers, suite uint16, proto string, resumed bool) []c41verdict {
	var out []c41verdict
	res := ""
	if resumed {
		res = ":resumed"
	}
	emin, emax := s.min, s.max
	if emin == 0 {
		emin = VersionSSL30
	}
	if emax == 0 {
		emax = VersionTLS12
	}
	// the rule of this connection: selected by the server name the client indicated
	ruled := s.grade != "" && h.serverName == c41ruleName
	grade := ""
	if ruled {
		grade = s.grade
	}
	// --- version
	if vers < emin {
		out = append(out, c41verdict{"version:below-server-min" + res, fmt.Sprintf("%s uses %s, server minimum %s", side, c41vname(vers), c41vname(emin))})
	}
	if vers > emax {
		out = append(out, c41verdict{"version:above-server-max" + res, fmt.Sprintf("%s uses %s, server maximum %s", side, c41vname(vers), c41vname(emax))})
	}
	if vers > h.vers {
		out = append(out, c41verdict{"version:above-client" + res, fmt.Sprintf("%s uses %s, client offered at most %s", side, c41vname(vers), c41vname(h.vers))})
	}
	if (grade == GradeA && vers < VersionTLS10) || (grade == GradeAPlus && vers < VersionTLS12) {
		out = append(out, c41verdict{"version:below-grade-" + grade + res, fmt.Sprintf("%s uses %s under grade %s", side, c41vname(vers), grade)})
	}
	// --- cipher suite
	if !c41has16(h.cipherSuites, suite) {
		out = append(out, c41verdict{"suite:not-offered-by-client" + res, fmt.Sprintf("%s uses suite %04x, client offered %04x", side, suite, h.cipherSuites)})
	}
	enabled := c41allSuites
	if s.suites >= 0 {
		enabled = c41maskList(s.menu(), s.suites, false)
	}
	if !c41has16(enabled, suite) {
		out = append(out, c41verdict{"suite:not-enabled-by-server" + res, fmt.Sprintf("%s uses suite %04x, server enables %04x", side, suite, enabled)})
	}
	if c41isRC4(suite) && (grade == GradeA || grade == GradeAPlus || (grade == GradeB && vers >= VersionTLS10)) {
		out = append(out, c41verdict{"suite:rc4-under-grade-" + grade + res, fmt.Sprintf("%s uses RC4 suite %04x with %s under grade %s", side, suite, c41vname(vers), grade)})
	}
	if !c41isRC4(suite) && grade == GradeB && vers == VersionSSL30 {
		out = append(out, c41verdict{"suite:ssl3-non-rc4-under-grade-B" + res, fmt.Sprintf("%s uses suite %04x with SSL3.0 under grade B", side, suite)})
	}
	if !c41isRC4(suite) && s.poodle && vers == VersionSSL30 {
		out = append(out, c41verdict{"suite:ssl3-non-rc4-poodle-proofed" + res, fmt.Sprintf("%s uses suite %04x with SSL3.0 although Ssl3PoodleProofed is set", side, suite)})
	}
	if c41isChacha(suite) && !(ruled && s.chacha) {
		out = append(out, c41verdict{"suite:chacha-not-enabled-by-rule" + res, fmt.Sprintf("%s uses ChaCha20 suite %04x, rule present=%v Chacha20=%v", side, suite, ruled, s.chacha)})
	}
	// --- ALPN
	if proto != "" {
		offered := c41protoLists[s.np]
		if ruled {
			offered = c41protoLists[s.rnp]
		}
		if !c41hasStr(h.alpnProtocols, proto) {
			out = append(out, c41verdict{"alpn:not-offered-by-client:" + proto + res, fmt.Sprintf("%s negotiated %q, client offered %q (server list %q)", side, proto, h.alpnProtocols, offered)})
		}
		if !c41hasStr(offered, proto) {
			out = append(out, c41verdict{"alpn:not-offered-by-server:" + proto + res, fmt.Sprintf("%s negotiated %q, server list %q (client offered %q)", side, proto, offered, h.alpnProtocols)})
		}
	}
	return out
}

// c41judge evaluates one observed connection.
func c41judge(s c41srv, o *c41obs) []c41verdict {
	var out []c41verdict
	h := o.hello
	if h == nil {
		return nil
	}
	if o.sDone {
		out = append(out, c41judgeParams(s, h, "server", o.sVers, o.sSuite, o.sProto, o.sResumed)...)
	}
	if o.cDone {
		out = append(out, c41judgeParams(s, h, "client", o.cVers, o.cSuite, o.cProto, o.cResumed)...)
	}
	if o.sDone && o.cDone {
		if o.sVers != o.cVers || o.sSuite != o.cSuite || o.sProto != o.cProto {
			out = append(out, c41verdict{"agree:ends-differ", fmt.Sprintf("server %s/%04x/%q, client %s/%04x/%q", c41vname(o.sVers), o.sSuite, o.sProto, c41vname(o.cVers), o.cSuite, o.cProto)})
		}
		if o.sData != "" {
			out = append(out, c41verdict{"data:client-to-server", o.sData})
		} else if o.cData != "" {
			out = append(out, c41verdict{"data:server-to-client", o.cData})
		}
	}
	// --- downgrade protection
	emax := s.max
	if emax == 0 {
		emax = VersionTLS12
	}
	if c41has16(h.cipherSuites, TLS_FALLBACK_SCSV) && h.vers < emax && o.sDone {
		cls := "max-explicit"
		if s.max == 0 {
			cls = "max-default"
		}
		if o.sResumed {
			cls += ":resumed"
		}
		out = append(out, c41verdict{"scsv:" + cls + ":handshake-completed",
			fmt.Sprintf("hello %s with TLS_FALLBACK_SCSV, server highest enabled %s (MaxVersion field %04x): not refused, completed with %s suite %04x",
				c41vname(h.vers), c41vname(emax), s.max, c41vname(o.sVers), o.sSuite)})
	}
	return out
}

// c41class is the outcome vocabulary.
func c41class(o *c41obs) string {
	switch {
	case o.timeout:
		return "harness-timeout"
	case o.sPanic != "":
		return "server-panic"
	case o.sDone && o.cDone:
		r := ""
		if o.sResumed {
			r = "-resumed"
		}
		return "completed" + r + ":" + c41vname(o.sVers)
	case o.sDone:
		return "server-completed-client-failed"
	}
	e := ""
	if o.sErr != nil {
		e = o.sErr.Error()
	}
	switch {
	case strings.Contains(e, "inppropriate protocol fallback"):
		return "refused:inappropriate-fallback"
	case strings.Contains(e, "unsupported, maximum protocol version"):
		return "refused:protocol-version"
	case strings.Contains(e, "for this grade"):
		return "refused:version-grade"
	case strings.Contains(e, "no cipher suite supported by both"):
		return "refused:no-shared-suite"
	case strings.Contains(e, "remote error") || e == "EOF" || strings.Contains(e, "closed pipe"):
		return "client-aborted"
	}
	if o.cErr != nil {
		// the client gave up for a reason of its own (e.g. the Go client does not speak SSL 3.0)
		if ce := o.cErr.Error(); !strings.Contains(ce, "remote error") && ce != "EOF" && !strings.Contains(ce, "closed pipe") {
			return "client-aborted"
		}
	}
	return "refused:other"
}

// ---------------------------------------------------------------------------------------------
// running cases

type c41ctx struct {
	r   *vk.Run
	t   *testing.T
	idx int
}

// next says whether the next enumerated case belongs to this shard and (in replay mode) is the
// case asked for.
func (x *c41ctx) next(id string) bool {
	x.idx++
	if !x.r.Mine(x.idx) {
		return false
	}
	return x.r.Case(id)
}

func (x *c41ctx) record(id string, s c41srv, conn int, o *c41obs) {
	r := x.r
	cl := c41class(o)
	r.Outcome(cl)
	if o.timeout {
		r.Cap("case-deadline")
		x.t.Logf("C41 harness error: case %s connection %d hit the per-case deadline", id, conn)
		return
	}
	if o.sPanic != "" {
		x.t.Logf("C41: server panic in case %s: %s", id, o.sPanic)
	}
	if o.hello == nil {
		r.Outcome("harness:no-client-hello")
		return
	}
	if o.sDone || c41has16(o.hello.cipherSuites, TLS_FALLBACK_SCSV) {
		r.Nontrivial(fmt.Sprintf("%s#%d", id, conn))
	}
	if o.sDone && o.cDone {
		if sc := c41suiteByID(o.sSuite); sc != nil && sc.flags&suiteECDHE != 0 && (len(o.hello.supportedCurves) == 0 || len(o.hello.supportedPoints) == 0) {
			r.Add("sum_completed_ecdhe_without_ecc_extension", 1)
		}
		if o.sProto != "" {
			r.Add("sum_completed_with_alpn", 1)
		}
		switch o.sSuite {
		case 0xc007:
			r.Add("sum_completed_ecdsa_rc4", 1)
		case 0xc009, 0xc02b, 0xcca9:
			r.Add("sum_completed_ecdsa_other", 1)
		}
	}
	if o.cErr != nil && strings.Contains(o.cErr.Error(), "unadvertised ALPN") {
		r.Outcome("std-client-refused-unadvertised-alpn")
	}
	for _, v := range c41judge(s, o) {
		r.Violation(v.sig, id, fmt.Sprintf("connection %d: %s [server %s]", conn, v.detail, s))
	}
	if cl == "completed:TLS1.2" || cl == "refused:no-shared-suite" || cl == "refused:inappropriate-fallback" {
		r.Sample(map[string]interface{}{"case": id, "outcome": cl, "version": c41vname(o.sVers), "suite": fmt.Sprintf("%04x", o.sSuite), "alpn": o.sProto})
	}
}

func (x *c41ctx) runStd(fam string, s c41srv, c c41cli) {
	id := fam + "|" + s.String() + "|" + c.String()
	if !x.next(id) {
		return
	}
	scfg := s.config()
	ccfg := c.config(s.menu())
	o := c41handshake(scfg, c41stdClient(ccfg))
	x.record(id, s, 1, o)
	if c.cache && !o.timeout {
		o2 := c41handshake(scfg, c41stdClient(ccfg))
		x.record(id, s, 2, o2)
	}
}

func (x *c41ctx) runRaw(fam string, s c41srv, c c41hcli) {
	id := fam + "|" + s.String() + "|" + c.String()
	if !x.next(id) {
		return
	}
	scfg := s.config()
	if c.resume == 2 {
		var sess *ClientSessionState
		o := c41handshake(scfg, c41rawClient(c.hello(s.menu(), false), nil, &sess))
		x.record(id, s, 1, o)
		if o.timeout {
			return
		}
		// sess == nil: no ticket was issued; the second connection is then an ordinary one
		o2 := c41handshake(scfg, c41rawClient(c.hello(s.menu(), true), sess, nil))
		x.record(id, s, 2, o2)
		return
	}
	o := c41handshake(scfg, c41rawClient(c.hello(s.menu(), true), nil, nil))
	x.record(id, s, 1, o)
}

// runStd2 / runRaw2: two-connection histories in which the server's policy CHANGES between the
// connection that issues the ticket (configuration s1) and the one that presents it (s2, same
// ticket key): a tls_rule_conf reload, or the same client reaching another rule of the server.
// Every connection is judged against the configuration in force for THAT connection; a refused
// resumption that falls back to a full handshake is fine.
func (x *c41ctx) runStd2(fam string, s1, s2 c41srv, c c41cli) {
	id := fam + "|" + s1.String() + "|then|" + s2.String() + "|" + c.String()
	if !x.next(id) {
		return
	}
	c.cache = true
	ccfg := c.config(s1.menu())
	o := c41handshake(s1.config(), c41stdClient(ccfg))
	x.record(id, s1, 1, o)
	if o.timeout {
		return
	}
	o2 := c41handshake(s2.config(), c41stdClient(ccfg))
	x.record(id, s2, 2, o2)
	if o2.sDone && o2.sResumed {
		x.r.Add("sum_resumed_under_changed_policy", 1)
	}
}

func (x *c41ctx) runRaw2(fam string, s1, s2 c41srv, c c41hcli) {
	id := fam + "|" + s1.String() + "|then|" + s2.String() + "|" + c.String()
	if !x.next(id) {
		return
	}
	var sess *ClientSessionState
	o := c41handshake(s1.config(), c41rawClient(c.hello(s1.menu(), false), nil, &sess))
	x.record(id, s1, 1, o)
	if o.timeout {
		return
	}
	o2 := c41handshake(s2.config(), c41rawClient(c.hello(s2.menu(), true), sess, nil))
	x.record(id, s2, 2, o2)
	if o2.sDone && o2.sResumed {
		x.r.Add("sum_resumed_under_changed_policy", 1)
	}
}

// runLife: the same client hello against the configuration in every life-cycle stage. Each
// connection is judged by the oracle against the specification (a clone must serve what was
// configured), and differentially: the outcome against a clone / reloaded configuration must
// equal the outcome against the original one.
func c41lifeKey(o *c41obs) string {
	return fmt.Sprintf("%s|sdone=%v,%s,%04x,%q|cdone=%v|ticket=%v", c41class(o), o.sDone, c41vname(o.sVers), o.sSuite, o.sProto, o.cDone, o.cTicket)
}

func (x *c41ctx) runLife(fam string, s c41srv, std *c41cli, raw *c41hcli) {
	id := fam + "|" + s.String() + "|"
	if std != nil {
		id += std.String()
	} else {
		id += raw.String()
	}
	if !x.next(id) {
		return
	}
	var ref string
	for life := 0; life < c41lifeCount; life++ {
		cfg := s.config()
		var cl c41clientFn
		if std != nil {
			cl = c41stdClient(std.config(s.menu()))
		} else {
			cl = c41rawClient(raw.hello(s.menu(), true), nil, new(*ClientSessionState))
		}
		o := c41handshakeVia(c41served(cfg, life), cl)
		x.record(id, s, life+1, o)
		if o.timeout {
			return
		}
		k := c41lifeKey(o)
		if life == 0 {
			ref = k
		} else if k != ref {
			x.r.Violation("lifecycle:"+c41lifeNames[life]+":outcome-differs-from-original:"+c41lifeDiffClass(ref, k), id,
				fmt.Sprintf("served configuration %s: %s; original configuration: %s [server %s]", c41lifeNames[life], k, ref, s))
		}
		x.r.Add("sum_lifecycle_connections", 1)
	}
}

// c41lifeDiffClass names what differs (coarse, for the signature).
func c41lifeDiffClass(a, b string) string {
	pa, pb := strings.Split(a, "|"), strings.Split(b, "|")
	names := []string{"outcome", "server-params", "client-done", "ticket"}
	for i := range pa {
		if i < len(pb) && pa[i] != pb[i] {
			return names[i]
		}
	}
	return "other"
}

type c41stubMultiCert struct{}

func (c41stubMultiCert) Get(c *Conn) *Certificate { return nil }

type c41stubSrvCache struct{}

func (c41stubSrvCache) Get(string) ([]byte, bool) { return nil, false }
func (c41stubSrvCache) Put(string, []byte) error  { return nil }

// fields of Config whose loss in Clone changes what the server negotiates
var c41negFields = map[string]bool{"Certificates": true, "NameToCertificate": true, "MultiCert": true, "NextProtos": true,
	"ClientAuth": true, "ClientCAs": true, "CipherSuites": true, "CipherSuitesPriority": true, "PreferServerCipherSuites": true,
	"Ssl3PoodleProofed": true, "SessionTicketsDisabled": true, "SessionTicketKey": true, "SessionTicketKeyName": true,
	"ServerSessionCache": true, "SessionCacheDisabled": true, "MinVersion": true, "MaxVersion": true, "CurvePreferences": true,
	"EnableSslv2ClientHello": true, "ServerRule": true}

// c41cloneFields: Clone() of a Config whose every exported field is non-zero, compared field by
// field by reflection.
func (x *c41ctx) cloneFields() {
	id := "K0|clone-fields"
	if !x.next(id) {
		return
	}
	c41keys()
	cfg := &Config{
		Rand:                     rand.Reader,
		Time:                     time.Now,
		Certificates:             []Certificate{c41rsaCert},
		NameToCertificate:        map[string]*Certificate{"c41.test": &c41rsaCert},
		MultiCert:                c41stubMultiCert{},
		RootCAs:                  x509.NewCertPool(),
		NextProtos:               []string{"h2"},
		ServerName:               "c41.test",
		ClientAuth:               RequestClientCert,
		ClientCAs:                x509.NewCertPool(),
		InsecureSkipVerify:       true,
		CipherSuites:             []uint16{TLS_RSA_WITH_AES_128_CBC_SHA},
		CipherSuitesPriority:     []uint16{0},
		PreferServerCipherSuites: true,
		Ssl3PoodleProofed:        true,
		SessionTicketsDisabled:   true,
		SessionTicketKey:         [32]byte{1},
		SessionTicketKeyName:     [16]byte{2},
		ClientSessionCache:       NewLRUClientSessionCache(1),
		ServerSessionCache:       c41stubSrvCache{},
		SessionCacheDisabled:     true,
		MinVersion:               VersionTLS11,
		MaxVersion:               VersionTLS11,
		CurvePreferences:         []CurveID{CurveP384},
		EnableSslv2ClientHello:   true,
		ServerRule:               c41rules{},
	}
	cl := cfg.Clone()
	a, b := reflect.ValueOf(cfg).Elem(), reflect.ValueOf(cl).Elem()
	for i := 0; i < a.NumField(); i++ {
		f := a.Type().Field(i)
		if f.PkgPath != "" {
			continue // unexported (serverInitOnce): deliberately not copied
		}
		fa, fb := a.Field(i), b.Field(i)
		if fa.IsZero() {
			x.t.Logf("C41 note: Config field %s was not given a non-zero value by the harness (new field?)", f.Name)
			x.r.Outcome("clone-fields:unpopulated-field")
			continue
		}
		same := false
		if f.Type.Kind() == reflect.Func {
			same = fa.Pointer() == fb.Pointer()
		} else {
			same = reflect.DeepEqual(fa.Interface(), fb.Interface())
		}
		switch {
		case same:
			x.r.Outcome("clone-fields:copied")
		case c41negFields[f.Name]:
			x.r.Violation("lifecycle:clone:field-not-copied:"+f.Name, id, fmt.Sprintf("Config.Clone() does not carry over %s (original %v, clone %v)", f.Name, fa.Interface(), fb.Interface()))
		default:
			x.r.Outcome("clone-fields:non-negotiation-field-not-copied")
			x.t.Logf("C41 note: Config.Clone() does not copy %s (does not influence server negotiation; not judged)", f.Name)
		}
	}
}

// ---------------------------------------------------------------------------------------------
// families

var c41grades = []string{"", GradeAPlus, GradeA, GradeB, GradeC}

func TestVerifC41(t *testing.T) {
	r := vk.Start(t, "C41")
	defer r.Finish()
	c41keys()
	x := &c41ctx{r: r, t: t}
	thorough := r.Thorough()
	stop := func() bool { return r.Expired("families") }

	allRSA := 1<<uint(len(c41menuRSA)) - 1
	h2http := c41protoIdx("h2", "http/1.1")
	stdMax := []uint16{stdtls.VersionTLS10, stdtls.VersionTLS11, stdtls.VersionTLS12, stdtls.VersionTLS13}
	base := c41srv{suites: allRSA, pref: 1, np: h2http, rnp: h2http, ticket: true}

	// Family V — versions: every valid (min,max) x grade x client maximum x three client suite
	// classes (all / CBC only / RC4 only) x SNI selecting the rule or not.
	for _, rg := range c41ranges() {
		for _, g := range c41grades {
			for _, cmax := range stdMax {
				for _, css := range []int{allRSA, 1<<2 | 1<<4, 1<<3 | 1<<5} {
					for _, sni := range []int{0, 1, 2} {
						if g == "" && sni == 2 {
							continue
						}
						s := base
						s.min, s.max, s.grade = rg[0], rg[1], g
						x.runStd("V", s, c41cli{max: cmax, suites: css, alpn: h2http, sni: sni})
					}
				}
			}
		}
		if stop() {
			return
		}
	}

	// Family K — configuration life cycle: the configuration a connection is served with is the
	// original Config, its Clone(), or what the real listener serves after one / two
	// session-ticket-key reloads (the steps of HttpsListener.UpdateSessionTicketKey). K0 Clone()
	// field by field; K1 every version range x client max / hello version x grade; K2 suite
	// lists x preference modes x order; K3 protocol lists on the Config and on the rule; K4 the
	// remaining knobs (Ssl3PoodleProofed with SSL3.0, CurvePreferences x client curves, tickets
	// on/off, Rule.Chacha20).
	x.cloneFields()
	for _, rg := range c41ranges() {
		for _, g := range []string{"", GradeB, GradeA} {
			sni := 0
			if g != "" {
				sni = 1
			}
			s := base
			s.min, s.max, s.grade = rg[0], rg[1], g
			for _, cmax := range stdMax {
				x.runLife("K1", s, &c41cli{max: cmax, suites: allRSA, alpn: h2http, sni: sni}, nil)
			}
			for _, hv := range []uint16{VersionSSL30, VersionTLS10, VersionTLS11, VersionTLS12} {
				x.runLife("K1", s, nil, &c41hcli{vers: hv, suites: allRSA, alpn: h2http, sni: sni, resume: 1})
			}
		}
	}
	if stop() {
		return
	}
	{
		kmasks := []int{-1}
		for m := 0; m <= allRSA; m++ {
			if thorough || m&3 == 0 { // quick: subsets of {ECDHE-CBC, ECDHE-RC4, RSA-CBC, RSA-RC4}
				kmasks = append(kmasks, m)
			}
		}
		for _, m := range kmasks {
			for pref := 0; pref <= 2; pref++ {
				for _, rev := range []bool{false, true} {
					s := base
					s.suites, s.pref, s.rev = m, pref, rev
					x.runLife("K2", s, &c41cli{max: stdtls.VersionTLS12, suites: allRSA, alpn: h2http}, nil)
					x.runLife("K2", s, nil, &c41hcli{vers: VersionTLS10, suites: allRSA, rev: true, alpn: h2http, resume: 1})
				}
			}
		}
	}
	for np := range c41protoLists {
		for _, ca := range []int{c41protoIdx("h2", "http/1.1"), c41protoIdx("http/1.1", "spdy/3.1", "h2"), c41protoIdx("spdy/3.1"), 0} {
			s := base
			s.np = np
			x.runLife("K3", s, &c41cli{max: stdtls.VersionTLS12, suites: allRSA, alpn: ca}, nil)
			s = base
			s.rnp, s.np, s.grade = np, c41protoIdx("spdy/3.1"), GradeC
			x.runLife("K3", s, &c41cli{max: stdtls.VersionTLS12, suites: allRSA, alpn: ca, sni: 1}, nil)
		}
	}
	for _, on := range []bool{false, true} {
		s := base
		s.poodle = on
		x.runLife("K4", s, nil, &c41hcli{vers: VersionSSL30, suites: allRSA, alpn: h2http, resume: 1})
		s = base
		s.p256 = on
		for cv := range c41stdCurves {
			x.runLife("K4", s, &c41cli{max: stdtls.VersionTLS12, suites: allRSA, curves: cv, alpn: h2http}, nil)
		}
		s = base
		s.ticket = on
		x.runLife("K4", s, nil, &c41hcli{vers: VersionTLS12, suites: allRSA, alpn: h2http, resume: 1})
		s = base
		s.grade, s.chacha = GradeC, on
		x.runLife("K4", s, &c41cli{max: stdtls.VersionTLS12, suites: 1<<1 | 1<<4, alpn: h2http, sni: 1}, nil)
	}
	if stop() {
		return
	}

	// Family G — certificate key type x rule grade: {RSA, ECDSA P-256} x grade (rule with
	// Chacha20) x version range (quick: 5 ranges) x preference / server order x client suite
	// lists (all in default order, RC4 first, RC4 only, each ECDHE suite alone, RC4+CBC, the
	// plain-RSA pair) x client max / hello version; every case is a full handshake followed by a
	// resumption attempt (crypto/tls session cache, hand-marshalled ticket client).
	gRanges := [][2]uint16{{0, 0}, {0, VersionTLS10}, {0, VersionTLS11}, {VersionTLS12, 0}, {VersionTLS11, VersionTLS11}}
	if thorough {
		gRanges = c41ranges()
	}
	gClasses := []int{allRSA, 1 << 3, 1 << 0, 1 << 1, 1 << 2, 1<<3 | 1<<2, 1<<5 | 1<<4}
	for _, ec := range []bool{false, true} {
		for _, g := range c41grades {
			for _, rg := range gRanges {
				for _, po := range [][2]int{{0, 0}, {1, 0}, {1, 1}} {
					s := base
					s.ec, s.grade, s.chacha, s.min, s.max, s.pref, s.rev = ec, g, true, rg[0], rg[1], po[0], po[1] == 1
					sni := 0
					if g != "" {
						sni = 1
					}
					for _, css := range gClasses {
						for _, cmax := range stdMax {
							x.runStd("G", s, c41cli{max: cmax, suites: css, alpn: h2http, sni: sni, cache: true})
						}
						for _, hv := range []uint16{VersionSSL30, VersionTLS10, VersionTLS11, VersionTLS12} {
							for _, rev := range []bool{false, true} {
								x.runRaw("G", s, c41hcli{vers: hv, suites: css, rev: rev, alpn: h2http, sni: sni, resume: 2})
							}
						}
					}
				}
			}
			if stop() {
				return
			}
		}
	}

	// Family A — ALPN: every ordered server list x every ordered client list over three protocols
	// x (list on the Config / on the matching rule / rule present but not matching) x contexts in
	// which h2 is and is not acceptable (TLS1.2+AEAD, TLS1.2+CBC, TLS1.1).
	type actx struct {
		cmax uint16
		css  int
	}
	actxs := []actx{{stdtls.VersionTLS12, allRSA}, {stdtls.VersionTLS12, 1<<2 | 1<<4}, {stdtls.VersionTLS11, allRSA}}
	for np := range c41protoLists {
		for ca := range c41protoLists {
			for mode := 0; mode < 3; mode++ {
				for _, c := range actxs {
					s := base
					sni := 0
					switch mode {
					case 0: // no rules: Config.NextProtos
						s.np, s.grade = np, ""
					case 1: // matching rule: Rule.NextProtos (the Config carries a different list)
						s.rnp, s.np, s.grade = np, c41protoIdx("spdy/3.1"), GradeC
						sni = 1
					case 2: // rule exists for another name: Config.NextProtos applies
						s.np, s.rnp, s.grade = np, c41protoIdx("spdy/3.1"), GradeA
						sni = 2
					}
					x.runStd("A", s, c41cli{max: c.cmax, suites: c.css, alpn: ca, sni: sni})
				}
			}
		}
	}
	if stop() {
		return
	}

	// Family L — ALPN with the lenient client (it completes whatever the server selects): every
	// ordered server list x client list x the three h2 contexts.
	for np := range c41protoLists {
		for ca := range c41protoLists {
			for _, c := range []struct {
				v   uint16
				css int
			}{{VersionTLS12, allRSA}, {VersionTLS12, 1<<2 | 1<<4}, {VersionTLS11, allRSA}} {
				s := base
				s.np = np
				x.runRaw("L", s, c41hcli{vers: c.v, suites: c.css, alpn: ca})
			}
		}
	}
	if stop() {
		return
	}

	// Family T — tickets: ticket on/off x client session cache (second connection resumes) x
	// version range x client max x grade.
	for _, tk := range []bool{false, true} {
		for _, rg := range c41ranges() {
			for _, cmax := range stdMax {
				for _, g := range []string{"", GradeA, GradeB} {
					for _, css := range []int{allRSA, 1<<2 | 1<<4 | 1<<5} {
						s := base
						s.ticket, s.min, s.max, s.grade = tk, rg[0], rg[1], g
						sni := 0
						if g != "" {
							sni = 1
						}
						x.runStd("T", s, c41cli{max: cmax, suites: css, alpn: h2http, sni: sni, cache: true})
					}
				}
			}
		}
	}
	if stop() {
		return
	}

	// Family R — policy change between ticket issue and ticket presentation (two connections,
	// same ticket key, same client): R1 the rule's grade and Chacha20 flag (every ordered pair of
	// grades, so C -> A/A+/B with RC4 negotiated first and still offered, and the reverse);
	// R2 the version range (every ordered pair of ranges); R3 the enabled suite list (every
	// ordered pair of subsets; quick: of the 4-suite sub-menu); R4 (thorough) grade and range
	// together. Clients: crypto/tls with a session cache and the hand-marshalled ticket client.
	rc4 := 1<<3 | 1<<5
	type rcli struct {
		std  bool
		vers uint16
		css  int
	}
	var rclis []rcli
	for _, css := range []int{allRSA, rc4, rc4 | 1<<2 | 1<<4, 1<<1 | 1<<2 | 1<<5} {
		rclis = append(rclis, rcli{true, stdtls.VersionTLS10, css}, rcli{true, stdtls.VersionTLS12, css},
			rcli{false, VersionSSL30, css}, rcli{false, VersionTLS10, css}, rcli{false, VersionTLS12, css})
	}
	runR := func(fam string, s1, s2 c41srv, c rcli) {
		s1.ticket, s2.ticket = true, true
		if c.std {
			x.runStd2(fam, s1, s2, c41cli{max: c.vers, suites: c.css, alpn: h2http, sni: 1})
		} else {
			x.runRaw2(fam, s1, s2, c41hcli{vers: c.vers, suites: c.css, alpn: h2http, sni: 1, resume: 2})
		}
	}
	for _, g1 := range c41grades {
		for _, g2 := range c41grades {
			for _, cha := range [][2]bool{{false, false}, {true, false}, {false, true}} {
				for _, rev := range []bool{false, true} { // reversed: the server prefers RC4
					for ci, c := range append(append([]rcli{}, rclis...), rclis...) {
						s1, s2 := base, base
						s1.ec, s2.ec = ci >= len(rclis), ci >= len(rclis) // second half: ECDSA certificate
						s1.grade, s2.grade, s1.chacha, s2.chacha, s1.rev, s2.rev = g1, g2, cha[0], cha[1], rev, rev
						// SSL3.0 sessions with a non-RC4 suite can be created on connection 1 and meet
						// an RC4-only policy (grade B / Ssl3PoodleProofed) on connection 2
						s1.poodle, s2.poodle = false, !rev
						runR("R1", s1, s2, c)
					}
				}
			}
		}
	}
	if stop() {
		return
	}
	for _, rg1 := range c41ranges() {
		for _, rg2 := range c41ranges() {
			for _, c := range rclis[:10] { // suite classes all / RC4 only
				s1, s2 := base, base
				s1.min, s1.max, s2.min, s2.max = rg1[0], rg1[1], rg2[0], rg2[1]
				runR("R2", s1, s2, c)
			}
		}
	}
	if stop() {
		return
	}
	{
		var ms []int
		if thorough {
			for m := 0; m <= allRSA; m++ {
				ms = append(ms, m)
			}
		} else {
			for m := 0; m < 16; m++ { // subsets of {ECDHE-CBC, ECDHE-RC4, RSA-CBC, RSA-RC4}
				ms = append(ms, (m&3)<<2|(m>>2)<<4)
			}
		}
		for _, m1 := range ms {
			if m1 == 0 {
				continue
			}
			for _, m2 := range append([]int{-1}, ms...) {
				for _, c := range []rcli{{true, stdtls.VersionTLS12, allRSA}, {false, VersionTLS10, allRSA}, {true, stdtls.VersionTLS11, rc4 | 1<<2 | 1<<4}} {
					for _, pref := range []int{0, 1} {
						s1, s2 := base, base
						s1.suites, s2.suites, s1.pref, s2.pref = m1, m2, pref, pref
						runR("R3", s1, s2, c)
					}
				}
			}
			if stop() {
				return
			}
		}
	}
	if thorough {
		rgs := [][2]uint16{{0, 0}, {0, VersionTLS10}, {VersionTLS11, 0}, {VersionTLS12, VersionTLS12}}
		for _, g1 := range c41grades {
			for _, g2 := range c41grades {
				for _, rg1 := range rgs {
					for _, rg2 := range rgs {
						for _, c := range rclis {
							s1, s2 := base, base
							s1.grade, s2.grade, s1.rev, s2.rev = g1, g2, true, true
							s1.min, s1.max, s2.min, s2.max = rg1[0], rg1[1], rg2[0], rg2[1]
							runR("R4", s1, s2, c)
						}
					}
				}
			}
		}
		if stop() {
			return
		}
	}

	// Family F — TLS_FALLBACK_SCSV (hand-marshalled): every valid (min,max) x hello version
	// SSL3.0..TLS1.2 x SCSV absent/first/last x grade x suite class x single connection / ticket
	// resumption.
	rawVers := []uint16{VersionSSL30, VersionTLS10, VersionTLS11, VersionTLS12}
	fGrades := []string{"", GradeA, GradeC}
	if thorough {
		fGrades = c41grades
	}
	for _, rg := range c41ranges() {
		for _, hv := range rawVers {
			for scsv := 0; scsv <= 2; scsv++ {
				for _, g := range fGrades {
					for _, css := range []int{allRSA, 1<<4 | 1<<5} {
						for _, res := range []int{0, 1, 2} {
							s := base
							s.min, s.max, s.grade = rg[0], rg[1], g
							s.poodle = scsv != 1 // bfe_server always sets Ssl3PoodleProofed; both values are explored
							sni := 0
							if g != "" {
								sni = 1
							}
							x.runRaw("F", s, c41hcli{vers: hv, suites: css, scsv: scsv, alpn: h2http, sni: sni, resume: res})
						}
					}
				}
			}
		}
		if stop() {
			return
		}
	}

	// Family E — ECDSA certificate: every server subset x client subset of the 6-suite EC menu
	// (quick: of the sub-menu ECDSA-GCM / ECDSA-CBC / ECDSA-RC4 / ECDHE-RSA-GCM) x preference x
	// client max version x client curves.
	allEC := 1<<uint(len(c41menuEC)) - 1
	inE := func(m int) bool { return thorough || m < 0 || m&(1<<1|1<<4) == 0 }
	for ss := -1; ss <= allEC; ss++ {
		for cs := 1; cs <= allEC; cs++ {
			if !inE(ss) || !inE(cs) {
				continue
			}
			for pref := 0; pref <= 2; pref++ {
				for _, cmax := range []uint16{stdtls.VersionTLS11, stdtls.VersionTLS12, stdtls.VersionTLS13} {
					for _, cv := range []int{0, 3} {
						s := base
						s.ec, s.suites, s.pref = true, ss, pref
						x.runStd("E", s, c41cli{max: cmax, suites: cs, curves: cv, alpn: h2http})
					}
				}
			}
		}
	}
	if stop() {
		return
	}

	// Family S — cipher suites: every server subset (and the nil default) x every non-empty client
	// subset of the 6-suite menu x preference mode x contexts (client max version, grade/chacha
	// of the rule, client curves).
	type sctx struct {
		cmax   uint16
		grade  string
		chacha bool
		curves int
		rev    bool
	}
	sctxs := []sctx{
		{stdtls.VersionTLS12, "", false, 0, false},
		{stdtls.VersionTLS10, GradeB, true, 1, true},
	}
	if thorough {
		sctxs = []sctx{
			{stdtls.VersionTLS12, "", false, 0, false},
			{stdtls.VersionTLS13, GradeC, true, 1, true},
			{stdtls.VersionTLS12, GradeA, true, 2, false},
			{stdtls.VersionTLS12, GradeAPlus, false, 3, true},
			{stdtls.VersionTLS11, GradeC, false, 0, true},
			{stdtls.VersionTLS11, GradeA, true, 3, false},
			{stdtls.VersionTLS10, GradeB, true, 1, true},
			{stdtls.VersionTLS10, "", false, 2, false},
		}
	}
	for ss := -1; ss <= allRSA; ss++ {
		for cs := 1; cs <= allRSA; cs++ {
			for pref := 0; pref <= 2; pref++ {
				for _, c := range sctxs {
					s := base
					s.suites, s.pref, s.grade, s.chacha, s.rev = ss, pref, c.grade, c.chacha, c.rev
					sni := 0
					if c.grade != "" {
						sni = 1
					}
					x.runStd("S", s, c41cli{max: c.cmax, suites: cs, curves: c.curves, alpn: h2http, sni: sni})
				}
			}
		}
		if stop() {
			return
		}
	}

	// Family C — ECDHE without the ECC extensions and client-ordered suites (hand-marshalled):
	// every server subset x client subset x the five extension shapes x hello version x client
	// order x preference mode. C1: the full 6-suite menu with all three preference modes (quick: a
	// 4-suite sub-menu, client/server preference) with hellos TLS1.0/TLS1.2; C2: the sub-menu with hellos SSL3.0/TLS1.1 and
	// all three preference modes (quick: equivalence groups only, TLS1.1).
	sub := []int{0, 2, 3, 4} // GCM, ECDHE-CBC, ECDHE-RC4, RSA-CBC
	var subMasks, allMasks []int
	for m := 0; m <= allRSA; m++ {
		allMasks = append(allMasks, m)
	}
	for m := 0; m < 1<<uint(len(sub)); m++ {
		mm := 0
		for i, b := range sub {
			if m&(1<<uint(i)) != 0 {
				mm |= 1 << uint(b)
			}
		}
		subMasks = append(subMasks, mm)
	}
	runC := func(fam string, masks []int, vers []uint16, prefs []int) bool {
		for _, ss := range masks {
			for _, cs := range masks {
				if cs == 0 {
					continue
				}
				for ecc := 0; ecc <= 4; ecc++ {
					for _, hv := range vers {
						for _, rev := range []bool{false, true} {
							for _, pref := range prefs {
								s := base
								s.suites, s.pref, s.grade, s.chacha = ss, pref, GradeC, true
								x.runRaw(fam, s, c41hcli{vers: hv, suites: cs, rev: rev, ecc: ecc, alpn: h2http, sni: 1})
							}
						}
					}
				}
			}
			if stop() {
				return false
			}
		}
		return true
	}
	if thorough {
		if !runC("C2", subMasks, []uint16{VersionSSL30, VersionTLS11}, []int{0, 1, 2}) {
			return
		}
		if !runC("C1", allMasks, []uint16{VersionTLS10, VersionTLS12}, []int{0, 1, 2}) {
			return
		}
	} else {
		if !runC("C2", subMasks, []uint16{VersionTLS11}, []int{2}) {
			return
		}
		if !runC("C1", subMasks, []uint16{VersionTLS10, VersionTLS12}, []int{0, 1}) {
			return
		}
	}

	r.Set("bounds", fmt.Sprintf("ranges=%d grades=%d menu=%d/%d protoLists=%d tier=%s", len(c41ranges()), len(c41grades), len(c41menuRSA), len(c41menuEC), len(c41protoLists), r.Tier()))
}
