//go:build verif

package bfe_http2

// C35 — HTTP/2 stream state machine is enforced without internal failures.
// Engine E2: the real Server.ServeConn runs in a synctest bubble; the harness enumerates every
// order of environment events (client frames over stream ids {1,3,5,..., an even id, 0} and
// handler actions) up to a depth, for several small alphabets ("families").
//
// Oracle 1 (first clause of the statement): a small reference automaton written from RFC 7540
// §5.1 (stream states), §5.1.1 (odd, increasing ids), §5.1.2 (advertised concurrency limit), §6
// (per-frame rules) and §8.1.2 (request / trailer validity) gives, for every client frame, the
// set of admissible outcome classes {quiet (accepted or ignored), started (request handed to the
// handler), resp4xx, RST_STREAM(code set), GOAWAY(code set), close}. It is generous wherever the
// RFC leaves a choice (a stream error may always be escalated to a connection error or a close;
// frames on a stream the server itself reset may be ignored or refused) and strict only on what
// the statement names: an invalid frame must not be accepted, a valid one must not be refused.
// Oracle 2 (second clause, literal): bfe's own serve-loop panic hook must never fire, and after
// every event the connection either continues (answers a PING probe at the end of the
// execution) or has ended with GOAWAY / close.

import (
	"fmt"
	"io"
	"strings"
	"sync"
	"testing"
	"testing/synctest"
	"time"

	"github.com/bfenetworks/bfe/verifkit/vk"
)

// ---- reference automaton ---------------------------------------------------------------------

type c35state int

const (
	c35Idle           c35state = iota // never used, id above every used id (or an even id)
	c35ImplicitClosed                 // odd id below a used id that was never used itself (§5.1.1)
	c35Open                           // request HEADERS seen, client has not ended the stream
	c35HCR                            // half-closed (remote): client sent END_STREAM
	c35HCL                            // half-closed (local): server sent END_STREAM, client did not
	c35ClosedPeerRst                  // client sent RST_STREAM
	c35ClosedOurRst                   // server sent RST_STREAM (frames in flight are tolerated)
	c35ClosedEnd                      // both sides sent END_STREAM
)

func (s c35state) active() bool { return s == c35Open || s == c35HCR || s == c35HCL }

type c35stream struct {
	id          uint32
	st          c35state
	win         int64  // server's send window on this stream as granted by the client
	path        string // request path == handler id
	declared    int64  // content-length of the request, -1 if absent
	sent        int64  // DATA payload octets the server accepted on this stream
	clientEnded bool   // the client's END_STREAM was accepted
}

type c35blk struct { // header block in progress (HEADERS without END_HEADERS)
	id      uint32
	variant string
	es      bool
	rest    []byte
	path    string
}

type c35model struct {
	streams  map[uint32]*c35stream
	maxUsed  uint32 // highest odd id the client opened with HEADERS
	blk      *c35blk
	goaway   bool
	closed   bool
	limit    int   // SETTINGS_MAX_CONCURRENT_STREAMS advertised by the server
	iws      int64 // client's SETTINGS_INITIAL_WINDOW_SIZE
	connWin  int64
	seq      int
	stalled  bool
	lastPath string
	reads    map[*h2handler]bool // handlers with a blocked body read
	gate     *c35gate            // gate family: frame-granular write gate in front of the server's Framer
	hpanic   bool // a handler goroutine was made to panic in this execution
	unjudged bool // outcomes are not attributed any more (stall family, or after a violation)
	panicked bool
}

func c35newModel(limit int) *c35model {
	return &c35model{streams: map[uint32]*c35stream{}, reads: map[*h2handler]bool{}, limit: limit, iws: 65535, connWin: 65535}
}

func (m *c35model) state(id uint32) c35state {
	if s, ok := m.streams[id]; ok {
		return s.st
	}
	if id%2 == 1 && id < m.maxUsed {
		return c35ImplicitClosed
	}
	return c35Idle
}

func (m *c35model) activeCount() int {
	n := 0
	for _, s := range m.streams {
		if s.st.active() {
			n++
		}
	}
	return n
}

const c35maxWin = 1<<31 - 1

// c35exp is the set of admissible outcome classes for one client frame.
type c35exp struct {
	why     string
	quiet   bool // no error signalled (accepted or ignored), no request started
	started bool // the request reached the application handler
	resp4xx bool // an HTTP error response was produced without running the application handler
	closeOK bool // connection closed without GOAWAY
	rst     []ErrCode
	goaway  []ErrCode
}

func c35quiet(why string) c35exp { return c35exp{why: why, quiet: true} }
func c35connErr(why string, codes ...ErrCode) c35exp {
	return c35exp{why: why, goaway: codes, closeOK: true}
}
func c35anyErr(why string, codes ...ErrCode) c35exp {
	return c35exp{why: why, rst: codes, goaway: codes, closeOK: true}
}
func (x c35exp) orQuiet() c35exp { x.quiet = true; return x }
func (x c35exp) with(y c35exp) c35exp {
	if x.why == "" {
		return y
	}
	x.why += "+" + y.why
	x.quiet = x.quiet || y.quiet
	x.started = x.started || y.started
	x.resp4xx = x.resp4xx || y.resp4xx
	x.closeOK = x.closeOK || y.closeOK
	x.rst = append(append([]ErrCode(nil), x.rst...), y.rst...)
	x.goaway = append(append([]ErrCode(nil), x.goaway...), y.goaway...)
	return x
}

type c35obs struct {
	kind string // quiet | started | resp4xx | rst | goaway | close
	code ErrCode
}

func (o c35obs) String() string {
	if o.kind == "rst" || o.kind == "goaway" {
		return o.kind + ":" + o.code.String()
	}
	return o.kind
}

func c35in(cs []ErrCode, c ErrCode) bool {
	for _, x := range cs {
		if x == c {
			return true
		}
	}
	return false
}

func (x c35exp) admits(o c35obs) bool {
	switch o.kind {
	case "quiet":
		return x.quiet
	case "started":
		return x.started
	case "resp4xx":
		return x.resp4xx
	case "close":
		return x.closeOK
	case "rst":
		return c35in(x.rst, o.code)
	case "goaway":
		return c35in(x.goaway, o.code)
	}
	return false
}

func (x c35exp) String() string {
	var p []string
	if x.quiet {
		p = append(p, "quiet")
	}
	if x.started {
		p = append(p, "started")
	}
	if x.resp4xx {
		p = append(p, "resp4xx")
	}
	if len(x.rst) > 0 {
		p = append(p, fmt.Sprintf("RST%v", x.rst))
	}
	if len(x.goaway) > 0 {
		p = append(p, fmt.Sprintf("GOAWAY%v", x.goaway))
	}
	if x.closeOK {
		p = append(p, "close")
	}
	return "{" + strings.Join(p, " | ") + "}"
}

// header block variants (RFC 7540 §8.1.2)
type c35var struct {
	reqBad   bool // malformed as a request (§8.1.2.1, §8.1.2.3, §8.1.2.6)
	connSpec bool // connection-specific header field (§8.1.2.2)
	pseudo   bool // contains pseudo-header fields (not allowed in trailers)
	fieldBad bool // a field that is malformed anywhere (upper-case name)
}

var c35vars = map[string]c35var{
	"ok":            {pseudo: true},
	"tetrailers":    {pseudo: true},
	"cl0":           {pseudo: true},
	"cl1":           {pseudo: true},
	"cl2":           {pseudo: true},
	"nometh":        {reqBad: true, pseudo: true},
	"duppath":       {reqBad: true, pseudo: true},
	"pseudoafter":   {reqBad: true, pseudo: true},
	"unkpseudo":     {reqBad: true, pseudo: true},
	"status":        {reqBad: true, pseudo: true},
	"emptypath":     {reqBad: true, pseudo: true},
	"upper":         {reqBad: true, pseudo: true, fieldBad: true},
	"conn":          {connSpec: true, pseudo: true},
	"tegzip":        {connSpec: true, pseudo: true},
	"trailer":       {reqBad: true},
	"trailerpseudo": {reqBad: true, pseudo: true},
}

func c35fields(variant, path string, post bool) []string {
	meth := "GET"
	if post {
		meth = "POST"
	}
	base := []string{":method", meth, ":scheme", "https", ":authority", "example.org", ":path", path}
	switch variant {
	case "ok":
		return base
	case "tetrailers":
		return append(base, "te", "trailers")
	case "cl0", "cl1", "cl2":
		return append(base, "content-length", variant[2:])
	case "nometh":
		return base[2:]
	case "duppath":
		return append(base, ":path", path)
	case "pseudoafter":
		return []string{":method", meth, ":scheme", "https", ":authority", "example.org", "x-a", "b", ":path", path}
	case "unkpseudo":
		return append(base, ":foo", "bar")
	case "status":
		return append(base, ":status", "200")
	case "emptypath":
		return []string{":method", meth, ":scheme", "https", ":authority", "example.org", ":path", ""}
	case "upper":
		return append(base, "X-Upper", "v")
	case "conn":
		return append(base, "connection", "close")
	case "tegzip":
		return append(base, "te", "gzip")
	case "trailer":
		return []string{"x-trailer", "1"}
	case "trailerpseudo":
		return []string{":path", path, "x-trailer", "1"}
	}
	panic("c35: unknown variant " + variant)
}

// c35declared is the content-length a request variant declares (-1: none).
func c35declared(variant string) int64 {
	switch variant {
	case "cl0":
		return 0
	case "cl1":
		return 1
	case "cl2":
		return 2
	}
	return -1
}

// c35mismatch: END_STREAM arrives although the DATA octets do not add up to the declared
// content-length (RFC 7540 8.1.2.6: malformed). The statement does not name content-length, so
// on the wire both a stream/connection error and silence are admitted; what is checked strictly
// is that the handler is never shown a clean end of body for such a request (c35readCheck).
func c35mismatch(why string) c35exp {
	return c35anyErr(why, ErrCodeProtocol).orQuiet()
}

func (m *c35model) expectHeaders(id uint32, variant string, es bool) c35exp {
	v := c35vars[variant]
	P, SC := ErrCodeProtocol, ErrCodeStreamClosed
	if id == 0 {
		return c35connErr("headers-on-stream-0", P)
	}
	if id%2 == 0 {
		return c35anyErr("headers-even-id", P)
	}
	switch m.state(id) {
	case c35Idle:
		var x c35exp
		if v.reqBad || v.fieldBad {
			x = x.with(c35anyErr("malformed-request:"+variant, P))
		}
		if v.connSpec {
			y := c35anyErr("connection-specific-header:"+variant, P)
			y.resp4xx = true
			x = x.with(y)
		}
		if m.activeCount() >= m.limit {
			x = x.with(c35exp{why: "over-concurrency-limit", closeOK: true,
				rst:    []ErrCode{P, ErrCodeRefusedStream},
				goaway: []ErrCode{P, ErrCodeRefusedStream, ErrCodeEnhanceYourCalm, ErrCodeNo}})
		}
		if x.why == "" && es && c35declared(variant) > 0 {
			y := c35anyErr("request-content-length-without-body", P)
			y.started = true
			return y
		}
		if x.why == "" {
			return c35exp{why: "valid-request", started: true, rst: []ErrCode{ErrCodeRefusedStream}}
		}
		return x
	case c35ImplicitClosed:
		return c35anyErr("headers-on-skipped-id", P, SC)
	case c35Open, c35HCL:
		if es && !v.pseudo && !v.fieldBad && !v.connSpec {
			if s := m.streams[id]; s.declared >= 0 && s.sent != s.declared {
				return c35mismatch("trailers-content-length-mismatch")
			}
			return c35quiet("valid-trailers")
		}
		if !es && !v.pseudo && !v.fieldBad && !v.connSpec {
			return c35anyErr("trailers-without-end-stream", P)
		}
		return c35anyErr("malformed-trailers:"+variant, P)
	case c35HCR:
		return c35anyErr("headers-on-half-closed-remote", SC, P)
	case c35ClosedPeerRst:
		return c35anyErr("headers-after-client-rst", SC, P)
	case c35ClosedEnd:
		return c35anyErr("headers-on-closed", SC, P)
	case c35ClosedOurRst:
		return c35anyErr("headers-after-server-rst", SC, P).orQuiet()
	}
	panic("c35: state")
}

func (m *c35model) expectData(id uint32, n int64, es bool) c35exp {
	P, SC := ErrCodeProtocol, ErrCodeStreamClosed
	if id == 0 {
		return c35connErr("data-on-stream-0", P)
	}
	switch m.state(id) {
	case c35Idle:
		return c35anyErr("data-on-idle", P, SC)
	case c35ImplicitClosed:
		return c35anyErr("data-on-skipped-id", P, SC)
	case c35Open:
		s := m.streams[id]
		if s.declared >= 0 && s.sent+n > s.declared {
			return c35mismatch("data-exceeds-content-length")
		}
		if es && s.declared >= 0 && s.sent+n != s.declared {
			return c35mismatch("end-stream-short-of-content-length")
		}
		if n == 0 {
			return c35quiet("valid-empty-data")
		}
		return c35quiet("valid-data")
	case c35HCL:
		return c35anyErr("data-on-half-closed-local", SC, P).orQuiet()
	case c35HCR:
		return c35anyErr("data-on-half-closed-remote", SC, P)
	case c35ClosedPeerRst:
		return c35anyErr("data-after-client-rst", SC, P)
	case c35ClosedEnd:
		return c35anyErr("data-on-closed", SC, P)
	case c35ClosedOurRst:
		return c35anyErr("data-after-server-rst", SC, P).orQuiet()
	}
	panic("c35: state")
}

func (m *c35model) expectRst(id uint32) c35exp {
	P := ErrCodeProtocol
	if id == 0 {
		return c35connErr("rst-on-stream-0", P)
	}
	st := m.state(id)
	switch {
	case st == c35Idle:
		return c35connErr("rst-on-idle", P)
	case st.active():
		return c35quiet("valid-rst")
	}
	return c35connErr("rst-on-closed", P).orQuiet()
}

func (m *c35model) expectPriority(id, dep uint32) c35exp {
	if id == 0 {
		return c35connErr("priority-on-stream-0", ErrCodeProtocol)
	}
	if id == dep {
		return c35anyErr("priority-self-dependency", ErrCodeProtocol).orQuiet()
	}
	return c35quiet("valid-priority")
}

func (m *c35model) expectWU(id, incr uint32) c35exp {
	P, FC := ErrCodeProtocol, ErrCodeFlowControl
	st := m.state(id)
	if incr == 0 {
		if id == 0 {
			return c35connErr("window-update-0-conn", P)
		}
		x := c35anyErr("window-update-0-stream", P)
		if !st.active() {
			x = x.orQuiet()
		}
		return x
	}
	if id == 0 {
		if m.connWin+int64(incr) > c35maxWin {
			return c35connErr("window-overflow-conn", FC)
		}
		return c35quiet("valid-window-update-conn")
	}
	switch {
	case st == c35Idle:
		return c35connErr("window-update-on-idle", P).orQuiet()
	case st.active():
		if m.streams[id].win+int64(incr) > c35maxWin {
			return c35anyErr("window-overflow-stream", FC)
		}
		return c35quiet("valid-window-update-stream")
	}
	return c35quiet("window-update-on-closed")
}

func (m *c35model) expectSettings(sub string) c35exp {
	P, FC := ErrCodeProtocol, ErrCodeFlowControl
	switch sub {
	case "empty", "mcs0":
		return c35quiet("valid-settings:" + sub)
	case "iws0":
		return c35quiet("valid-settings-iws")
	case "iwsmax":
		for _, s := range m.streams {
			if s.st.active() && s.win+(c35maxWin-m.iws) > c35maxWin {
				return c35connErr("settings-window-overflow", FC)
			}
		}
		return c35quiet("valid-settings-iws")
	case "iwsbad":
		return c35connErr("settings-iws-too-large", FC)
	case "pushbad":
		return c35connErr("settings-enable-push-2", P)
	case "onstream":
		return c35connErr("settings-on-stream", P)
	case "ackextra":
		return c35connErr("settings-unsolicited-ack", P).orQuiet()
	case "acklen":
		return c35connErr("settings-ack-with-payload", ErrCodeFrameSize)
	}
	panic("c35: settings " + sub)
}

func (m *c35model) expectMisc(kind string) c35exp {
	P := ErrCodeProtocol
	switch kind {
	case "PING", "PINGACK":
		return c35quiet("valid-ping")
	case "PING@1":
		return c35connErr("ping-on-stream", P)
	case "PINGLEN":
		return c35connErr("ping-bad-length", ErrCodeFrameSize)
	case "GA":
		x := c35quiet("client-goaway")
		x.closeOK = true
		x.goaway = []ErrCode{ErrCodeNo}
		return x
	case "GA@1":
		return c35connErr("goaway-on-stream", P)
	case "UNK":
		return c35quiet("unknown-frame-type")
	case "PP":
		return c35connErr("push-promise-from-client", P)
	}
	panic("c35: misc " + kind)
}

// ---- events ----------------------------------------------------------------------------------

type c35ev struct {
	name    string
	kind    string // H D R P W S C misc RET READ WF STALL
	id      uint32
	es      bool
	eh      bool
	variant string
	val     uint32
	sub     string
	h       *h2handler
}

func c35b(v bool, t, f string) string {
	if v {
		return t
	}
	return f
}

func c35H(id uint32, variant string, es bool) c35ev {
	return c35ev{name: fmt.Sprintf("H%d:%s%s", id, variant, c35b(es, ":ES", "")), kind: "H", id: id, es: es, eh: true, variant: variant}
}
func c35HF(id uint32, variant string, es bool) c35ev {
	return c35ev{name: fmt.Sprintf("HF%d:%s%s", id, variant, c35b(es, ":ES", "")), kind: "H", id: id, es: es, eh: false, variant: variant}
}
func c35C(id uint32, eh bool) c35ev {
	return c35ev{name: fmt.Sprintf("C%d%s", id, c35b(eh, ":EH", "")), kind: "C", id: id, eh: eh}
}
func c35D(id uint32, es bool) c35ev {
	return c35ev{name: fmt.Sprintf("D%d%s", id, c35b(es, ":ES", "")), kind: "D", id: id, es: es, val: 1}
}
func c35D0(id uint32, es bool) c35ev { // empty DATA frame
	return c35ev{name: fmt.Sprintf("D%d:empty%s", id, c35b(es, ":ES", "")), kind: "D", id: id, es: es, val: 0}
}
func c35R(id uint32) c35ev { return c35ev{name: fmt.Sprintf("R%d", id), kind: "R", id: id} }
func c35P(id, dep uint32) c35ev {
	return c35ev{name: fmt.Sprintf("P%d>%d", id, dep), kind: "P", id: id, val: dep}
}
func c35W(id, incr uint32, tag string) c35ev {
	return c35ev{name: fmt.Sprintf("W%d+%s", id, tag), kind: "W", id: id, val: incr}
}
func c35S(sub string) c35ev { return c35ev{name: "S:" + sub, kind: "S", sub: sub} }
func c35M(sub string, id uint32) c35ev {
	return c35ev{name: fmt.Sprintf("%s/%d", sub, id), kind: "misc", sub: sub, id: id}
}

const c35fit = c35maxWin - 65535

var c35malformed = []string{"ok", "nometh", "duppath", "pseudoafter", "unkpseudo", "status", "emptypath", "upper", "conn", "tegzip", "tetrailers", "trailer"}

// c35panicRead: a scripted body Read of this size panics inside the handler goroutine (runHandler
// recovers it and queues a handlerPanicRST write for the stream).
const c35panicRead = 7777

type c35body struct{ io.ReadCloser }

func (b *c35body) Read(p []byte) (int, error) {
	if len(p) == c35panicRead {
		panic("c35: scripted handler panic")
	}
	return b.ReadCloser.Read(p)
}

// c35gate sits between the server's Framer and its buffered conn writer ("gate" family). While it
// is shut, the write of the next server frame parks inside the frame-write goroutine: the frame
// has been started (startFrameWrite) but its result has not reached the serve loop (wroteFrame),
// so client frames and handler actions are processed in that window.
type c35gate struct {
	w    io.Writer
	mu   sync.Mutex
	cond *sync.Cond
	shut bool
}

func (g *c35gate) Write(p []byte) (int, error) {
	g.mu.Lock()
	for g.shut {
		g.cond.Wait()
	}
	g.mu.Unlock()
	return g.w.Write(p)
}

func (g *c35gate) set(shut bool) {
	g.mu.Lock()
	g.shut = shut
	g.cond.Broadcast()
	g.mu.Unlock()
	synctest.Wait()
}

// c35alphabet lists the enabled events of a family in the current state.
func c35alphabet(fam string, e *h2env, m *c35model) []c35ev {
	var evs []c35ev
	add := func(ev ...c35ev) { evs = append(evs, ev...) }
	next := m.maxUsed + 2
	if m.maxUsed == 0 {
		next = 1
	}
	hops := []string{"RET"}
	switch fam {
	case "ids":
		add(c35H(1, "ok", true), c35H(3, "ok", true), c35H(5, "ok", true), c35H(2, "ok", true), c35H(0, "ok", true),
			c35H(1, "ok", false), c35H(3, "ok", false), c35D(1, true), c35R(1), c35R(3))
	case "body":
		add(c35H(1, "ok", false), c35H(1, "ok", true), c35H(1, "trailer", true), c35H(1, "trailer", false), c35H(1, "trailerpseudo", true),
			c35D(1, false), c35D(1, true), c35R(1), c35D(3, false), c35D(0, false), c35D(2, false), c35H(3, "ok", true))
		hops = []string{"RET", "READ", "WF", "PANIC"}
	case "malformed":
		for _, v := range c35malformed {
			add(c35H(next, v, true))
		}
		add(c35H(next, "ok", false))
		if m.maxUsed > 0 {
			add(c35H(m.maxUsed, "ok", true), c35D(m.maxUsed, false), c35R(m.maxUsed))
		}
		if m.maxUsed >= 3 {
			add(c35H(m.maxUsed-2, "ok", true))
		}
	case "cont":
		add(c35HF(1, "ok", true), c35HF(1, "ok", false), c35HF(1, "trailer", true), c35HF(3, "nometh", true),
			c35C(1, true), c35C(1, false), c35C(3, true), c35H(3, "ok", true), c35D(1, true), c35M("PING", 0), c35M("UNK", 1), c35R(1))
	case "limit1", "limit2":
		add(c35H(next, "ok", true), c35H(next, "ok", false), c35R(1), c35R(3), c35D(1, true), c35D(3, true), c35S("mcs0"))
	case "flow":
		add(c35H(1, "ok", false),
			c35W(0, c35maxWin, "max"), c35W(1, c35maxWin, "max"), c35W(0, c35fit, "fit"), c35W(1, c35fit, "fit"), c35W(0, 1, "1"), c35W(1, 1, "1"),
			c35S("iwsmax"), c35S("iws0"))
		hops = []string{"RET", "WF"}
	case "drift":
		// handler writes on a stream that was reset, then the connection window is driven to its
		// maximum: the server's own copy of the window must not have drifted
		add(c35H(1, "ok", false), c35R(1), c35W(0, c35fit, "fit"), c35W(0, 1, "1"))
		hops = []string{"RET", "WF"}
	case "wu0":
		add(c35H(1, "ok", false), c35H(3, "ok", true), c35R(1),
			c35W(0, 0, "0"), c35W(1, 0, "0"), c35W(3, 0, "0"), c35W(1, 1, "1"), c35W(3, 1, "1"), c35W(5, 1, "1"), c35W(3, c35maxWin, "max"))
	case "ctrl":
		add(c35H(1, "ok", false), c35H(3, "ok", true),
			c35S("empty"), c35S("mcs0"), c35S("iwsbad"), c35S("pushbad"), c35S("onstream"), c35S("ackextra"), c35S("acklen"),
			c35M("PING", 0), c35M("PINGACK", 0), c35M("PING@1", 1), c35M("PINGLEN", 0), c35M("GA", 0), c35M("GA@1", 1),
			c35M("UNK", 0), c35M("UNK", 1), c35M("UNK", 7), c35M("PP", 1),
			c35P(1, 1), c35P(1, 3), c35P(3, 1), c35P(0, 1), c35P(7, 1), c35R(7))
	case "stall":
		add(c35H(1, "ok", true), c35H(1, "ok", false), c35H(3, "ok", true), c35D(1, true), c35R(1), c35M("PING", 0),
			c35ev{name: c35b(m.stalled, "UNSTALL", "STALL"), kind: "STALL"})
		hops = []string{"RET", "READ", "WF", "PANIC"}
	case "clen", "clen0", "clen1", "clen2":
		// the request (POST without END_STREAM; content-length absent / 0 / 1 / 2) is the prelude
		add(c35D0(1, false), c35D0(1, true), c35D(1, false), c35D(1, true), c35H(1, "trailer", true), c35R(1), c35H(3, "cl1", true))
		hops = []string{"RET", "READ"}
	case "gate":
		add(c35H(1, "ok", true), c35H(1, "ok", false), c35H(3, "ok", true), c35R(1), c35W(1, 1, "1"), c35D(1, true),
			c35ev{name: c35b(m.gate != nil && m.gate.shut, "UNGATE", "GATE"), kind: "GATE"})
		hops = []string{"RET", "HWF", "PANIC"}
	default:
		panic("c35: family " + fam)
	}
	e.mu.Lock()
	order := append([]string(nil), e.order...)
	hs := make([]*h2handler, len(order))
	for i, p := range order {
		hs[i] = e.handlers[p]
	}
	e.mu.Unlock()
	for i, h := range hs {
		// In the stall and gate families the completion of a handler command can depend on the order in which
		// the serve loop's select picks simultaneously ready channels (not controllable), so the
		// alphabet must not depend on it: commands to a busy/finished handler are no-ops there.
		if h == nil || (fam != "stall" && fam != "gate" && (h.done || h.busy || h.cmdsClosed)) {
			continue
		}
		for _, op := range hops {
			evs = append(evs, c35ev{name: fmt.Sprintf("%s#%d", op, i), kind: op, h: h})
		}
	}
	return evs
}

// c35poll collects handler commands that were blocked and completed meanwhile; done (may be nil)
// is called for every completed body read.
func c35poll(e *h2env, m *c35model, done func(h *h2handler, res h2res)) {
	e.mu.Lock()
	hs := make([]*h2handler, 0, len(e.order))
	for _, p := range e.order {
		hs = append(hs, e.handlers[p])
	}
	e.mu.Unlock()
	for _, h := range hs {
		if h != nil && h.busy {
			if res, blocked := h.poll(); !blocked && m.reads[h] {
				delete(m.reads, h)
				if done != nil {
					done(h, res)
				}
			}
		}
	}
}

// c35readCheck: what the handler is shown as request body. It never gets more octets than the
// server accepted, and a clean end of body (io.EOF) only if the client ended the stream with the
// DATA octets matching the declared content-length (or exactly the declared number of octets was
// delivered): a request that is malformed per RFC 7540 8.1.2.6, or not finished yet, must not
// look complete to the handler.
func c35readCheck(r *vk.Run, id string, hist []string, m *c35model, h *h2handler, res h2res) {
	if m.unjudged || m.panicked {
		return
	}
	var s *c35stream
	for _, x := range m.streams {
		if x.path == h.id {
			s = x
		}
	}
	if s == nil {
		return
	}
	got := int64(len(h.bodyRead))
	bad := ""
	switch {
	case got > s.sent:
		bad = "more-octets-than-accepted"
	case res.err == io.EOF:
		complete := s.clientEnded && (s.declared < 0 || s.declared == s.sent) && got == s.sent
		if !complete && !(s.declared >= 0 && got == s.declared) {
			switch {
			case !s.clientEnded:
				bad = "clean-eof-before-end-stream"
			case s.declared >= 0 && s.declared != s.sent:
				bad = "clean-eof-on-content-length-mismatch"
			default:
				bad = "clean-eof-short-read"
			}
		}
	}
	cl := "cl-absent"
	if s.declared >= 0 {
		cl = fmt.Sprintf("cl=%d", s.declared)
	}
	if res.err == nil {
		r.Outcome("body-read=>data")
	} else if res.err == io.EOF {
		r.Outcome("body-read=>eof")
	} else {
		r.Outcome("body-read=>error")
	}
	if bad != "" {
		m.unjudged = true
		r.Violation("body:"+bad, id, fmt.Sprintf("handler of stream %d (%s, client sent %d accepted DATA octets, END_STREAM accepted=%v) read %d octets in total, last read n=%d err=%v; history %v", s.id, cl, s.sent, s.clientEnded, got, res.n, res.err, hist))
	}
}

func c35started(e *h2env) int {
	e.mu.Lock()
	defer e.mu.Unlock()
	return len(e.order)
}

func c35panicText(e *h2env) string {
	e.mu.Lock()
	defer e.mu.Unlock()
	if len(e.panics) == 0 {
		return ""
	}
	return strings.Join(e.panics, " ;; ")
}

func c35panicClass(p string) string {
	if i := strings.Index(p, " ;; "); i >= 0 {
		p = p[:i]
	}
	var b strings.Builder
	for _, c := range strings.ToLower(p) {
		switch {
		case c >= 'a' && c <= 'z':
			b.WriteRune(c)
		case c >= '0' && c <= '9':
			b.WriteByte('#')
		default:
			b.WriteByte('-')
		}
		if b.Len() >= 70 {
			break
		}
	}
	return strings.Trim(b.String(), "-")
}

// c35send writes the client frame(s) of ev and returns the admissible outcomes, the stream the
// outcome is observed on and whether this event can start a request.
func c35send(e *h2env, m *c35model, ev c35ev) (exp c35exp, target uint32, early bool) {
	m.seq++
	path := fmt.Sprintf("/s%d-%d", ev.id, m.seq)
	if ev.kind == "H" {
		m.lastPath = path
	}
	target = ev.id
	inBlock := m.blk != nil
	switch ev.kind {
	case "H":
		exp = m.expectHeaders(ev.id, ev.variant, ev.es)
		block := e.encodeHeaders(c35fields(ev.variant, path, !ev.es)...)
		if ev.eh {
			e.fr.WriteHeaders(HeadersFrameParam{StreamID: ev.id, BlockFragment: block, EndStream: ev.es, EndHeaders: true})
		} else {
			cut := len(block) / 2
			if cut == 0 {
				cut = 1 // bfe answers a HEADERS frame with an empty fragment with a stream error (not judged here)
			}
			e.fr.WriteHeaders(HeadersFrameParam{StreamID: ev.id, BlockFragment: block[:cut], EndStream: ev.es, EndHeaders: false})
			if !inBlock {
				m.blk = &c35blk{id: ev.id, variant: ev.variant, es: ev.es, rest: block[cut:], path: path}
				early = true
			}
		}
	case "C":
		switch {
		case m.blk == nil:
			exp = c35connErr("continuation-without-headers", ErrCodeProtocol)
			e.fr.WriteContinuation(ev.id, ev.eh, []byte{0x82})
		case m.blk.id != ev.id:
			exp = c35connErr("continuation-wrong-stream", ErrCodeProtocol)
			e.fr.WriteContinuation(ev.id, ev.eh, m.blk.rest)
		default:
			exp = m.expectHeaders(m.blk.id, m.blk.variant, m.blk.es)
			if ev.eh {
				e.fr.WriteContinuation(ev.id, true, m.blk.rest)
			} else {
				n := 1
				if len(m.blk.rest) < 2 {
					n = 0
				}
				e.fr.WriteContinuation(ev.id, false, m.blk.rest[:n])
				m.blk.rest = m.blk.rest[n:]
				early = true
			}
		}
		inBlock = false // CONTINUATION is the one frame allowed inside a header block
	case "D":
		exp = m.expectData(ev.id, int64(ev.val), ev.es)
		e.fr.WriteData(ev.id, ev.es, []byte("d")[:ev.val])
	case "R":
		exp = m.expectRst(ev.id)
		e.fr.WriteRSTStream(ev.id, ErrCodeCancel)
	case "P":
		exp = m.expectPriority(ev.id, ev.val)
		e.fr.WritePriority(ev.id, PriorityParam{StreamDep: ev.val, Weight: 10})
	case "W":
		exp = m.expectWU(ev.id, ev.val)
		e.fr.WriteWindowUpdate(ev.id, ev.val)
	case "S":
		exp = m.expectSettings(ev.sub)
		target = 0
		switch ev.sub {
		case "empty":
			e.fr.WriteSettings()
		case "mcs0":
			e.fr.WriteSettings(Setting{SettingMaxConcurrentStreams, 0})
		case "iws0":
			e.fr.WriteSettings(Setting{SettingInitialWindowSize, 0})
		case "iwsmax":
			e.fr.WriteSettings(Setting{SettingInitialWindowSize, c35maxWin})
		case "iwsbad":
			e.fr.WriteSettings(Setting{SettingInitialWindowSize, 1 << 31})
		case "pushbad":
			e.fr.WriteSettings(Setting{SettingEnablePush, 2})
		case "onstream":
			e.fr.WriteRawFrame(FrameSettings, 0, 1, nil)
		case "ackextra":
			e.fr.WriteSettingsAck()
		case "acklen":
			e.fr.WriteRawFrame(FrameSettings, FlagSettingsAck, 0, []byte{0, 3, 0, 0, 0, 9})
		}
	case "misc":
		exp = m.expectMisc(ev.sub)
		target = 0
		switch ev.sub {
		case "PING":
			e.fr.WritePing(false, [8]byte{1, 2, 3})
		case "PINGACK":
			e.fr.WritePing(true, [8]byte{1, 2, 3})
		case "PING@1":
			e.fr.WriteRawFrame(FramePing, 0, 1, make([]byte, 8))
		case "PINGLEN":
			e.fr.WriteRawFrame(FramePing, 0, 0, make([]byte, 7))
		case "GA":
			e.fr.WriteGoAway(0, ErrCodeNo, nil)
		case "GA@1":
			e.fr.WriteRawFrame(FrameGoAway, 0, 1, make([]byte, 8))
		case "UNK":
			target = ev.id
			e.fr.WriteRawFrame(FrameType(0x1f), 0, ev.id, []byte("xyz"))
		case "PP":
			target = ev.id
			e.fr.WritePushPromise(PushPromiseParam{StreamID: ev.id, PromiseID: 2, BlockFragment: []byte{0x82}, EndHeaders: true})
		}
	default:
		panic("c35: send " + ev.kind)
	}
	if inBlock {
		// §6.10: anything but CONTINUATION on the same stream inside a header block
		exp = c35anyErr("frame-inside-header-block", ErrCodeProtocol)
		early = false
	}
	e.flushFrame()
	return exp, target, early
}

// c35observe classifies what the client sees after an event.
func c35observe(e *h2env, frames []h2frame, target uint32, startedBefore int, canStart bool) c35obs {
	for _, f := range frames {
		if f.Type == FrameGoAway {
			return c35obs{"goaway", f.ErrCode}
		}
	}
	if e.connClosed() {
		return c35obs{kind: "close"}
	}
	if canStart && c35started(e) > startedBefore {
		return c35obs{kind: "started"}
	}
	if canStart {
		for _, f := range frames {
			if f.Type == FrameHeaders && f.StreamID == target {
				for _, hf := range f.Fields {
					if hf.Name == ":status" && (strings.HasPrefix(hf.Value, "4") || strings.HasPrefix(hf.Value, "5")) {
						return c35obs{kind: "resp4xx"}
					}
				}
			}
		}
	}
	if target != 0 {
		for _, f := range frames {
			if f.Type == FrameRSTStream && f.StreamID == target {
				return c35obs{"rst", f.ErrCode}
			}
		}
	}
	return c35obs{kind: "quiet"}
}

// c35book folds the server frames into the model (server-side transitions).
func c35book(e *h2env, m *c35model, frames []h2frame) {
	for _, f := range frames {
		s := m.streams[f.StreamID]
		switch f.Type {
		case FrameRSTStream:
			if s != nil && s.st.active() {
				s.st = c35ClosedOurRst
			}
		case FrameData, FrameHeaders:
			if f.Type == FrameData {
				m.connWin -= int64(f.Len)
				if s != nil {
					s.win -= int64(f.Len)
				}
			}
			if f.EndStream && s != nil {
				switch s.st {
				case c35Open:
					s.st = c35HCL
				case c35HCR:
					s.st = c35ClosedEnd
				}
			}
		case FrameGoAway:
			m.goaway = true
		}
	}
	if e.connClosed() {
		m.closed = true
	}
}

// c35apply is the client-side transition of the reference automaton for an event whose outcome
// was obs.
func c35apply(m *c35model, ev c35ev, obs c35obs, early bool) {
	dead := obs.kind == "goaway" || obs.kind == "close"
	headers := func(id uint32, es bool, variant, path string) {
		if id == 0 || id%2 == 0 || dead {
			return
		}
		switch m.state(id) {
		case c35Idle:
			if id > m.maxUsed {
				m.maxUsed = id
			}
			st := c35Open
			if es {
				st = c35HCR
			}
			if obs.kind == "quiet" {
				st = c35ClosedOurRst // ignored: only possible after a violation; keep the model harmless
			}
			decl := c35declared(variant)
			if es && decl > 0 {
				decl = -1 // HEADERS(END_STREAM) declaring a body: the statement is silent, not judged (see expectHeaders)
			}
			m.streams[id] = &c35stream{id: id, st: st, win: m.iws, path: path, declared: decl, clientEnded: es}
		case c35Open, c35HCL:
			if obs.kind == "quiet" && es {
				m.streams[id].clientEnded = true
				if m.streams[id].st == c35Open {
					m.streams[id].st = c35HCR
				} else {
					m.streams[id].st = c35ClosedEnd
				}
			}
		}
	}
	switch ev.kind {
	case "H":
		if ev.eh && m.blk == nil {
			headers(ev.id, ev.es, ev.variant, m.lastPath)
		}
	case "C":
		if m.blk != nil && m.blk.id == ev.id && ev.eh && !early {
			headers(m.blk.id, m.blk.es, m.blk.variant, m.blk.path)
			m.blk = nil
		}
	case "D":
		if s := m.streams[ev.id]; s != nil && obs.kind == "quiet" && (s.st == c35Open || s.st == c35HCL) {
			s.sent += int64(ev.val)
			if ev.es {
				s.clientEnded = true
				if s.st == c35Open {
					s.st = c35HCR
				} else {
					s.st = c35ClosedEnd
				}
			}
		}
	case "R":
		if s := m.streams[ev.id]; s != nil && s.st.active() {
			s.st = c35ClosedPeerRst
		}
	case "W":
		if obs.kind == "quiet" && ev.val > 0 {
			if ev.id == 0 {
				m.connWin += int64(ev.val)
			} else if s := m.streams[ev.id]; s != nil && s.st.active() {
				s.win += int64(ev.val)
			}
		}
	case "S":
		if obs.kind == "quiet" {
			nw := int64(-1)
			switch ev.sub {
			case "iws0":
				nw = 0
			case "iwsmax":
				nw = c35maxWin
			}
			if nw >= 0 {
				for _, s := range m.streams {
					if s.st.active() {
						s.win += nw - m.iws
					}
				}
				m.iws = nw
			}
		}
	}
}

func c35checkPanic(r *vk.Run, id string, why string, hist []string, e *h2env, m *c35model) bool {
	p := c35panicText(e)
	if p == "" {
		return false
	}
	if !m.panicked {
		m.panicked = true
		sig := "serve-panic:" + why + ":" + c35panicClass(p)
		if m.hpanic {
			sig += ":after-handler-panic"
		}
		r.Violation(sig, id, fmt.Sprintf("serve loop panicked (%s) after events %v; server frames so far: %s", p, hist, h2trace(e.frames)))
	}
	m.unjudged = true
	return true
}

// c35step runs one event and checks both oracles at the quiescent point.
func c35step(r *vk.Run, id string, hist []string, e *h2env, m *c35model, ev c35ev) {
	startedBefore := c35started(e)
	judged := !m.unjudged && !m.goaway
	switch ev.kind {
	case "STALL":
		m.unjudged = true
		m.stalled = !m.stalled
		e.setStall(m.stalled)
		frames := e.recv()
		c35book(e, m, frames)
		c35checkPanic(r, id, "stall", hist, e, m)
		return
	case "GATE":
		m.unjudged = true // server frames are delayed from here on: outcomes cannot be attributed
		m.gate.set(!m.gate.shut)
		frames := e.recv()
		c35book(e, m, frames)
		c35checkPanic(r, id, c35b(m.gate.shut, "gate", "ungate"), hist, e, m)
		return
	case "RET", "READ", "WF", "HWF", "PANIC":
		if ev.h.busy {
			if res, blocked := ev.h.poll(); !blocked && m.reads[ev.h] {
				delete(m.reads, ev.h)
				c35readCheck(r, id, hist, m, ev.h, res)
			}
		}
		if ev.h.done || ev.h.busy || ev.h.cmdsClosed {
			c35book(e, m, e.recv())
			c35checkPanic(r, id, "handler-noop", hist, e, m)
			return
		}
		switch ev.kind {
		case "PANIC":
			// the handler goroutine panics and is gone (the command is never answered); bfe's
			// runHandler recovers and asks the serve loop to reset the stream
			m.hpanic = true
			ev.h.do(h2cmd{op: "read", n: c35panicRead})
		case "RET":
			ev.h.do(h2cmd{op: "return"})
		case "READ":
			if res, blocked := ev.h.do(h2cmd{op: "read", n: 64}); blocked {
				m.reads[ev.h] = true
			} else {
				c35readCheck(r, id, hist, m, ev.h, res)
			}
		case "WF":
			if _, blocked := ev.h.do(h2cmd{op: "write", n: 3}); !blocked {
				ev.h.do(h2cmd{op: "flush"})
			}
		case "HWF":
			// a response header makes the handler wait for its HEADERS frame before it produces
			// DATA, so at most one internal channel of the serve loop becomes ready at a time
			ev.h.do(h2cmd{op: "header", k: "x-c35", v: "1"})
			if _, blocked := ev.h.do(h2cmd{op: "write", n: 3}); !blocked {
				ev.h.do(h2cmd{op: "flush"})
			}
		}
		frames := e.recv()
		obs := c35observe(e, frames, 0, startedBefore, false)
		c35book(e, m, frames)
		if c35checkPanic(r, id, "handler-"+ev.kind, hist, e, m) {
			return
		}
		r.Outcome("handler-" + ev.kind + "=>" + obs.String())
		if judged && obs.kind != "quiet" {
			m.unjudged = true
			r.Violation("outcome:handler-"+ev.kind+"=>"+obs.String(), id, fmt.Sprintf("handler event %s made the connection end (%s) after %v; server frames: %s", ev.name, obs, hist, h2trace(frames)))
		}
		return
	}
	drift := m.connWin != int64(e.sc.flow.n) // server's own connection send window differs from what the client granted
	exp, target, early := c35send(e, m, ev)
	if drift && exp.why == "window-overflow-conn" {
		exp.why = "window-overflow-conn(server-window-drifted)"
	}
	frames := e.recv()
	canStart := ev.kind == "H" || ev.kind == "C"
	obs := c35observe(e, frames, target, startedBefore, canStart)
	if c35checkPanic(r, id, exp.why, hist, e, m) {
		c35book(e, m, frames)
		return
	}
	if judged {
		if early {
			// header block not complete: nothing may happen yet, except an error the complete
			// block would be answered with anyway
			r.Outcome("partial-header-block=>" + obs.String())
			if obs.kind != "quiet" && !exp.admits(obs) {
				m.unjudged = true
				r.Violation("outcome:partial-block:"+exp.why+"=>"+obs.String(), id, fmt.Sprintf("event %s (header block not yet complete) was answered with %s; admissible for the complete block (%s): %s; history %v; server frames: %s", ev.name, obs, exp.why, exp, hist, h2trace(frames)))
			}
		} else {
			r.Outcome(exp.why + "=>" + obs.String())
			if !exp.admits(obs) {
				m.unjudged = true
				r.Violation("outcome:"+exp.why+"=>"+obs.String(), id, fmt.Sprintf("event %s: rule %q admits %s but the client observed %s; history %v; server frames after the event: %s; model conn send window %d, server's own %d", ev.name, exp.why, exp, obs, hist, h2trace(frames), m.connWin, e.sc.flow.n))
			}
		}
	}
	c35apply(m, ev, obs, early)
	c35book(e, m, frames)
}

// c35finish ends an execution: the connection must still serve (PING probe) or have ended with
// GOAWAY / close; the serve loop must not have panicked, also not while shutting down.
func c35finish(r *vk.Run, id string, hist []string, e *h2env, m *c35model) {
	if m.gate != nil && m.gate.shut {
		m.gate.set(false)
		c35book(e, m, e.recv())
		c35checkPanic(r, id, "ungate", hist, e, m)
	}
	if m.stalled {
		m.stalled = false
		e.setStall(false)
		c35book(e, m, e.recv())
	}
	c35poll(e, m, func(h *h2handler, res h2res) { c35readCheck(r, id, hist, m, h, res) })
	switch {
	case m.closed:
	case m.goaway:
		e.sleep(time.Second) // GOAWAY shutdown timer
		c35book(e, m, e.recv())
	case m.blk == nil:
		e.fr.WritePing(false, [8]byte{'c', '3', '5'})
		e.flushFrame()
		frames := e.recv()
		ack := false
		for _, f := range frames {
			if f.Type == FramePing && f.Ack {
				ack = true
			}
		}
		c35book(e, m, frames)
		if !ack && c35panicText(e) == "" {
			r.Violation("liveness:no-ping-ack", id, fmt.Sprintf("after %v the connection is neither ended (GOAWAY/close) nor answering PING; frames: %s closed=%v", hist, h2trace(frames), e.connClosed()))
		}
	}
	e.closeClient()
	c35book(e, m, e.recv())
	c35settle(e, m)
	c35checkPanic(r, id, "shutdown", hist, e, m)
}

// c35settle lets the 50 ms sleep of an error GOAWAY write finish: the fake clock stops once the
// bubble's main goroutine has exited, so no sleeper may be left behind.
func c35settle(e *h2env, m *c35model) {
	if m.gate != nil && m.gate.shut {
		m.gate.set(false)
	}
	if m.stalled {
		m.stalled = false
		e.setStall(false)
	}
	e.sleep(100 * time.Millisecond)
	c35book(e, m, e.recv())
}

func c35exec(t *testing.T, r *vk.Run, fam string, depth int, replayLen int, ch *vk.Chooser, nth int64) {
	conf := &Server{}
	limit := defaultMaxStreams
	switch fam {
	case "limit1":
		conf.MaxConcurrentStreams, limit = 1, 1
	case "limit2":
		conf.MaxConcurrentStreams, limit = 2, 2
	}
	h2run(t, conf, false, func(e *h2env) {
		e.fr.AllowIllegalWrites = true
		e.mu.Lock()
		e.autoHandler = func(h *h2handler) { h.req.Body = &c35body{h.req.Body} }
		e.mu.Unlock()
		e.recv()
		m := c35newModel(limit)
		if fam == "gate" {
			g := &c35gate{}
			g.cond = sync.NewCond(&g.mu)
			if !e.onServe(func(sc *serverConn) { g.w = sc.framer.w; sc.framer.w = g }) {
				panic("c35: cannot install the write gate")
			}
			m.gate = g
		}
		var hist []string
		post := 0
		id := fam + "|trace:"
		if strings.HasPrefix(fam, "clen") {
			// prelude: the body-carrying request whose content-length is the family's dimension
			variant := "ok"
			if fam != "clen" {
				variant = "cl" + fam[4:]
			}
			ev := c35H(1, variant, false)
			hist = append(hist, ev.name)
			c35step(r, id, hist, e, m, ev)
		}
		for d := 0; d < depth; d++ {
			if replayLen >= 0 && d >= replayLen {
				break
			}
			c35poll(e, m, func(h *h2handler, res h2res) { c35readCheck(r, id, hist, m, h, res) })
			if m.closed {
				break
			}
			if m.goaway {
				// one more event after GOAWAY (robustness only, outcomes are not judged)
				if post >= 1 {
					break
				}
				post++
			}
			evs := c35alphabet(fam, e, m)
			if len(evs) == 0 {
				break
			}
			i := ch.Choose(len(evs))
			if ch.Skipped {
				c35settle(e, m)
				return
			}
			ev := evs[i]
			hist = append(hist, ev.name)
			id = fam + "|trace:" + ch.TraceString()
			c35step(r, id, hist, e, m, ev)
			c35poll(e, m, func(h *h2handler, res h2res) { c35readCheck(r, id, hist, m, h, res) })
			r.Transitions(1)
		}
		end := "alive"
		switch {
		case m.panicked:
			end = "panic"
		case m.goaway:
			end = "goaway"
		case m.closed:
			end = "closed"
		}
		c35finish(r, id, hist, e, m)
		if m.panicked {
			end = "panic"
		}
		r.Outcome(fam + ":end=" + end)
		r.Case(ch.CaseID(fam))
		r.Nontrivial(fam + " " + strings.Join(hist, " "))
		if nth%4000 == 11 {
			r.Sample(map[string]interface{}{"family": fam, "events": strings.Join(hist, " "), "server_frames": h2trace(e.frames)})
		}
	})
}

func TestVerifC35(t *testing.T) {
	r := vk.Start(t, "C35")
	defer r.Finish()
	type fam struct {
		name  string
		depth int
	}
	fams := []fam{
		{"ids", r.Pick(4, 6)},
		{"body", r.Pick(4, 5)},
		{"malformed", r.Pick(3, 4)},
		{"limit1", r.Pick(5, 6)},
		{"limit2", r.Pick(4, 6)},
		{"cont", r.Pick(4, 5)},
		{"flow", r.Pick(4, 5)},
		{"wu0", r.Pick(4, 5)},
		{"drift", r.Pick(5, 6)},
		{"ctrl", r.Pick(3, 4)},
		{"stall", r.Pick(4, 6)},
		{"gate", r.Pick(5, 6)},
		{"clen", r.Pick(4, 5)},
		{"clen0", r.Pick(4, 5)},
		{"clen1", r.Pick(4, 5)},
		{"clen2", r.Pick(4, 5)},
	}
	for _, f := range fams {
		replayLen := -1
		if r.Replaying() {
			pfx := f.name + "|trace:"
			if !strings.HasPrefix(r.ReplayCase(), pfx) {
				continue
			}
			replayLen = len(vk.ParseInts(strings.TrimPrefix(r.ReplayCase(), pfx)))
		}
		complete := true
		var nth int64
		n := vk.ExploreSharded(r, f.name, 2, -1, func(ch *vk.Chooser) {
			nth++
			c35exec(t, r, f.name, f.depth, replayLen, ch, nth)
		}, func() bool {
			if r.Expired("c35 " + f.name) {
				complete = false
				return true
			}
			return false
		})
		r.Traces(n)
		r.States(n)
		r.Set("family_"+f.name, fmt.Sprintf("depth %d, executions %d, complete=%v", f.depth, n, complete))
	}
}
