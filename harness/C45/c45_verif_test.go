//go:build verif

package bfe_tls

// C45 — TLS handshake messages round-trip and parse safely.
// Engine E4 (bounded-exhaustive input enumeration) on the real marshal()/unmarshal() of every
// handshake message type in handshake_messages.go and of sessionState in ticket.go.
//
//  R  round trip: for every message type the full product of a field alphabet (one symbol per
//     branch of marshal/unmarshal: each optional extension on/off, empty / one / several /
//     >255-byte elements) plus "solo" maximal values; oracle: the marshalled bytes are accepted
//     by unmarshal and every field that is carried on the wire is equal (own comparator, nil ==
//     empty). The value domain is what the TLS RFCs allow (see "assumptions" in checks/C45.json).
//  P  parsing, every parser configuration (15: certificateRequest / certificateVerify with and
//     without the TLS 1.2 signature-and-hash field):
//     P1 all byte strings of length <= 2, and a 4-byte header (length 0..3) + all bodies <= 2;
//     P2 for each marshalled sample: every truncation, one/two appended bytes, every byte
//        replaced by boundary values (thorough: by all 255 other values), every 2/3-byte window
//        set to 00.. / ff.. (covers every length field 0 / max / +-1 in place);
//     P3 structure-aware: the sample re-encoded by an independent RFC encoder (tree of
//        length-prefixed blocks); for every block: declared length +-1, +-2, 0, max, content
//        truncated / extended with honest or stale own length, node dropped / duplicated, all
//        enclosing lengths honest (so the inner guards are reached); thorough: all pairs of lies;
//     P4 (thorough) every 2-byte window of the plain and the rich sample set to all 65536 values;
//     P6 (thorough) every pair of byte positions of the plain and the rich sample x {0,-1,+1,ff}^2;
//     P5 samples of every type (and their truncations) fed to every other parser.
//     Oracle: no panic when the input slice has cap == len (so every access outside the message
//     faults; a panic that disappears when the slice has spare capacity is classified as a read
//     outside the message), and — because a parsed message is a message value — marshalling it
//     again must give bytes that parse back to an equal message. Acceptance of malformed input is
//     NOT judged (the statement is silent).

import (
	"bytes"
	"encoding/hex"
	"fmt"
	"strconv"
	"strings"
	"testing"

	"github.com/bfenetworks/bfe/verifkit/vk"
)

// ---------------------------------------------------------------------------------------
// parser configurations

type c45parser struct {
	name string
	mk   func() handshakeMessage
}

var c45parsers = []c45parser{
	{"clientHello", func() handshakeMessage { return new(clientHelloMsg) }},
	{"serverHello", func() handshakeMessage { return new(serverHelloMsg) }},
	{"certificate", func() handshakeMessage { return new(certificateMsg) }},
	{"serverKeyExchange", func() handshakeMessage { return new(serverKeyExchangeMsg) }},
	{"certificateStatus", func() handshakeMessage { return new(certificateStatusMsg) }},
	{"serverHelloDone", func() handshakeMessage { return new(serverHelloDoneMsg) }},
	{"clientKeyExchange", func() handshakeMessage { return new(clientKeyExchangeMsg) }},
	{"finished", func() handshakeMessage { return new(finishedMsg) }},
	{"nextProto", func() handshakeMessage { return new(nextProtoMsg) }},
	{"certificateRequest-nosig", func() handshakeMessage { return &certificateRequestMsg{hasSignatureAndHash: false} }},
	{"certificateRequest-sig", func() handshakeMessage { return &certificateRequestMsg{hasSignatureAndHash: true} }},
	{"certificateVerify-nosig", func() handshakeMessage { return &certificateVerifyMsg{hasSignatureAndHash: false} }},
	{"certificateVerify-sig", func() handshakeMessage { return &certificateVerifyMsg{hasSignatureAndHash: true} }},
	{"newSessionTicket", func() handshakeMessage { return new(newSessionTicketMsg) }},
	{"sessionState", func() handshakeMessage { return new(sessionState) }},
}

func c45parserIdx(name string) int {
	for i, p := range c45parsers {
		if p.name == name {
			return i
		}
	}
	return -1
}

// ---------------------------------------------------------------------------------------
// independent comparator: first wire-carried field that differs ("" = equal). nil == empty.

func c45eqU16(a, b []uint16) bool {
	if len(a) != len(b) {
		return false
	}
	for i := range a {
		if a[i] != b[i] {
			return false
		}
	}
	return true
}

func c45eqCurves(a, b []CurveID) bool {
	if len(a) != len(b) {
		return false
	}
	for i := range a {
		if a[i] != b[i] {
			return false
		}
	}
	return true
}

func c45eqStrs(a, b []string) bool {
	if len(a) != len(b) {
		return false
	}
	for i := range a {
		if a[i] != b[i] {
			return false
		}
	}
	return true
}

func c45eqBB(a, b [][]byte) bool {
	if len(a) != len(b) {
		return false
	}
	for i := range a {
		if !bytes.Equal(a[i], b[i]) {
			return false
		}
	}
	return true
}

func c45eqSH(a, b []signatureAndHash) bool {
	if len(a) != len(b) {
		return false
	}
	for i := range a {
		if a[i].hash != b[i].hash || a[i].signature != b[i].signature {
			return false
		}
	}
	return true
}

func c45diff(x, y handshakeMessage) string {
	switch a := x.(type) {
	case *clientHelloMsg:
		b, ok := y.(*clientHelloMsg)
		switch {
		case !ok:
			return "type"
		case a.vers != b.vers:
			return "vers"
		case !bytes.Equal(a.random, b.random):
			return "random"
		case !bytes.Equal(a.sessionId, b.sessionId):
			return "sessionId"
		case !c45eqU16(a.cipherSuites, b.cipherSuites):
			return "cipherSuites"
		case !bytes.Equal(a.compressionMethods, b.compressionMethods):
			return "compressionMethods"
		case a.nextProtoNeg != b.nextProtoNeg:
			return "nextProtoNeg"
		case a.serverName != b.serverName:
			return "serverName"
		case a.ocspStapling != b.ocspStapling:
			return "ocspStapling"
		case !c45eqCurves(a.supportedCurves, b.supportedCurves):
			return "supportedCurves"
		case !bytes.Equal(a.supportedPoints, b.supportedPoints):
			return "supportedPoints"
		case a.ticketSupported != b.ticketSupported:
			return "ticketSupported"
		case !bytes.Equal(a.sessionTicket, b.sessionTicket):
			return "sessionTicket"
		case !c45eqSH(a.signatureAndHashes, b.signatureAndHashes):
			return "signatureAndHashes"
		case a.secureRenegotiation != b.secureRenegotiation:
			return "secureRenegotiation"
		case !c45eqStrs(a.alpnProtocols, b.alpnProtocols):
			return "alpnProtocols"
		}
	case *serverHelloMsg:
		b, ok := y.(*serverHelloMsg)
		switch {
		case !ok:
			return "type"
		case a.vers != b.vers:
			return "vers"
		case !bytes.Equal(a.random, b.random):
			return "random"
		case !bytes.Equal(a.sessionId, b.sessionId):
			return "sessionId"
		case a.cipherSuite != b.cipherSuite:
			return "cipherSuite"
		case a.compressionMethod != b.compressionMethod:
			return "compressionMethod"
		case a.nextProtoNeg != b.nextProtoNeg:
			return "nextProtoNeg"
		case !c45eqStrs(a.nextProtos, b.nextProtos):
			return "nextProtos"
		case a.ocspStapling != b.ocspStapling:
			return "ocspStapling"
		case a.ticketSupported != b.ticketSupported:
			return "ticketSupported"
		case a.secureRenegotiation != b.secureRenegotiation:
			return "secureRenegotiation"
		case a.alpnProtocol != b.alpnProtocol:
			return "alpnProtocol"
		}
	case *certificateMsg:
		b, ok := y.(*certificateMsg)
		switch {
		case !ok:
			return "type"
		case !c45eqBB(a.certificates, b.certificates):
			return "certificates"
		}
	case *serverKeyExchangeMsg:
		b, ok := y.(*serverKeyExchangeMsg)
		switch {
		case !ok:
			return "type"
		case !bytes.Equal(a.key, b.key):
			return "key"
		}
	case *certificateStatusMsg:
		b, ok := y.(*certificateStatusMsg)
		switch {
		case !ok:
			return "type"
		case a.statusType != b.statusType:
			return "statusType"
		case !bytes.Equal(a.response, b.response):
			return "response"
		}
	case *serverHelloDoneMsg:
		if _, ok := y.(*serverHelloDoneMsg); !ok {
			return "type"
		}
	case *clientKeyExchangeMsg:
		b, ok := y.(*clientKeyExchangeMsg)
		switch {
		case !ok:
			return "type"
		case !bytes.Equal(a.ciphertext, b.ciphertext):
			return "ciphertext"
		}
	case *finishedMsg:
		b, ok := y.(*finishedMsg)
		switch {
		case !ok:
			return "type"
		case !bytes.Equal(a.verifyData, b.verifyData):
			return "verifyData"
		}
	case *nextProtoMsg:
		b, ok := y.(*nextProtoMsg)
		switch {
		case !ok:
			return "type"
		case a.proto != b.proto:
			return "proto"
		}
	case *certificateRequestMsg:
		b, ok := y.(*certificateRequestMsg)
		switch {
		case !ok:
			return "type"
		case a.hasSignatureAndHash != b.hasSignatureAndHash:
			return "hasSignatureAndHash"
		case !bytes.Equal(a.certificateTypes, b.certificateTypes):
			return "certificateTypes"
		case !c45eqSH(a.signatureAndHashes, b.signatureAndHashes):
			return "signatureAndHashes"
		case !c45eqBB(a.certificateAuthorities, b.certificateAuthorities):
			return "certificateAuthorities"
		}
	case *certificateVerifyMsg:
		b, ok := y.(*certificateVerifyMsg)
		switch {
		case !ok:
			return "type"
		case a.hasSignatureAndHash != b.hasSignatureAndHash:
			return "hasSignatureAndHash"
		case a.hasSignatureAndHash && (a.signatureAndHash.hash != b.signatureAndHash.hash || a.signatureAndHash.signature != b.signatureAndHash.signature):
			return "signatureAndHash"
		case !bytes.Equal(a.signature, b.signature):
			return "signature"
		}
	case *newSessionTicketMsg:
		b, ok := y.(*newSessionTicketMsg)
		switch {
		case !ok:
			return "type"
		case !bytes.Equal(a.ticket, b.ticket):
			return "ticket"
		}
	case *sessionState:
		b, ok := y.(*sessionState)
		switch {
		case !ok:
			return "type"
		case a.vers != b.vers:
			return "vers"
		case a.cipherSuite != b.cipherSuite:
			return "cipherSuite"
		case !bytes.Equal(a.masterSecret, b.masterSecret):
			return "masterSecret"
		case !c45eqBB(a.certificates, b.certificates):
			return "certificates"
		}
	default:
		return "unknown-type"
	}
	return ""
}

// c45clearRaw drops the marshal cache so that marshal() encodes the fields again.
func c45clearRaw(m handshakeMessage) {
	switch a := m.(type) {
	case *clientHelloMsg:
		a.raw = nil
	case *serverHelloMsg:
		a.raw = nil
	case *certificateMsg:
		a.raw = nil
	case *serverKeyExchangeMsg:
		a.raw = nil
	case *certificateStatusMsg:
		a.raw = nil
	case *clientKeyExchangeMsg:
		a.raw = nil
	case *finishedMsg:
		a.raw = nil
	case *nextProtoMsg:
		a.raw = nil
	case *certificateRequestMsg:
		a.raw = nil
	case *certificateVerifyMsg:
		a.raw = nil
	case *newSessionTicketMsg:
		a.raw = nil
	}
}

// ---------------------------------------------------------------------------------------
// value domains

func c45pat(n int, seed byte) []byte {
	b := make([]byte, n)
	for i := range b {
		b[i] = seed + byte(i*7)
	}
	return b
}

type c45sym struct {
	name string
	set  func(m handshakeMessage)
}

type c45field struct {
	name string
	syms []c45sym // product alphabet; symbol 0 is the plainest value
	solo []c45sym // maximal values, evaluated alone on the plain base (thorough)
}

type c45dom struct {
	name   string
	parser int
	fields []c45field
	rich   []int
	valid  func(idx []int) bool
}

func (d *c45dom) build(idx []int) handshakeMessage {
	m := c45parsers[d.parser].mk()
	for i, f := range d.fields {
		f.syms[idx[i]].set(m)
	}
	return m
}

func (d *c45dom) ok(idx []int) bool { return d.valid == nil || d.valid(idx) }

func (d *c45dom) describe(idx []int) string {
	var parts []string
	for i, f := range d.fields {
		parts = append(parts, f.name+"="+f.syms[idx[i]].name)
	}
	return strings.Join(parts, ",")
}

func c45suites(n int) []uint16 {
	s := make([]uint16, n)
	for i := range s {
		s[i] = 0xc000 + uint16(i%0x3000) // never 0x00ff
	}
	return s
}

func c45curves(n int) []CurveID {
	s := make([]CurveID, n)
	for i := range s {
		s[i] = CurveID(23 + i)
	}
	return s
}

func c45str(n int, seed byte) string {
	b := make([]byte, n)
	for i := range b {
		b[i] = 'a' + (seed+byte(i))%26
	}
	return string(b)
}

// certificate-list fields: c0..c2 each absent or one of the element sizes; "absent" only trailing.
func c45listValid(first, n int) func(idx []int) bool {
	return func(idx []int) bool {
		for i := first; i+1 < first+n; i++ {
			if idx[i] == 0 && idx[i+1] != 0 {
				return false
			}
		}
		return true
	}
}

func c45domains(th bool) []*c45dom {
	var doms []*c45dom
	pick := func(th bool, q, t []c45sym) []c45sym {
		if th {
			return append(append([]c45sym{}, q...), t...)
		}
		return q
	}

	// ---- clientHello
	{
		ch := func(name string, f func(m *clientHelloMsg)) c45sym {
			return c45sym{name, func(m handshakeMessage) { f(m.(*clientHelloMsg)) }}
		}
		const fSuites, fReneg = 3, 12
		d := &c45dom{name: "clientHello", parser: c45parserIdx("clientHello")}
		d.fields = []c45field{
			{name: "vers", syms: pick(th, []c45sym{
				ch("tls12", func(m *clientHelloMsg) { m.vers = 0x0303 }),
				ch("tls10", func(m *clientHelloMsg) { m.vers = 0x0301 }),
			}, []c45sym{ch("ffff", func(m *clientHelloMsg) { m.vers = 0xffff })})},
			{name: "random", syms: pick(th, []c45sym{
				ch("pattern", func(m *clientHelloMsg) { m.random = c45pat(32, 0x11) }),
			}, []c45sym{ch("allff", func(m *clientHelloMsg) { m.random = bytes.Repeat([]byte{0xff}, 32) })})},
			{name: "sessionId", syms: []c45sym{
				ch("empty", func(m *clientHelloMsg) { m.sessionId = nil }),
				ch("32", func(m *clientHelloMsg) { m.sessionId = c45pat(32, 0x51) }),
				ch("1", func(m *clientHelloMsg) { m.sessionId = []byte{0x77} }),
			}},
			{name: "cipherSuites", syms: pick(th, []c45sym{
				ch("one", func(m *clientHelloMsg) { m.cipherSuites = []uint16{0xc02f} }),
				ch("four", func(m *clientHelloMsg) { m.cipherSuites = []uint16{0xc02f, 0xc030, 0x009c, 0x1301} }),
				ch("with-scsv", func(m *clientHelloMsg) { m.cipherSuites = []uint16{0xc02f, 0x00ff} }),
			}, []c45sym{
				ch("300", func(m *clientHelloMsg) { m.cipherSuites = c45suites(300) }),
			}), solo: []c45sym{
				ch("max32767", func(m *clientHelloMsg) { m.cipherSuites = c45suites(32767) }),
			}},
			{name: "compressionMethods", syms: pick(th, []c45sym{
				ch("null", func(m *clientHelloMsg) { m.compressionMethods = []byte{0} }),
				ch("two", func(m *clientHelloMsg) { m.compressionMethods = []byte{1, 0} }),
			}, []c45sym{
				ch("255", func(m *clientHelloMsg) { m.compressionMethods = c45pat(255, 1) }),
			})},
			{name: "nextProtoNeg", syms: []c45sym{
				ch("off", func(m *clientHelloMsg) {}),
				ch("on", func(m *clientHelloMsg) { m.nextProtoNeg = true }),
			}},
			{name: "serverName", syms: pick(th, []c45sym{
				ch("none", func(m *clientHelloMsg) {}),
				ch("example.com", func(m *clientHelloMsg) { m.serverName = "example.com" }),
				ch("a", func(m *clientHelloMsg) { m.serverName = "a" }),
			}, []c45sym{
				ch("300", func(m *clientHelloMsg) { m.serverName = c45str(300, 3) }),
			}), solo: []c45sym{
				// extensions<0..2^16-1>: a single extension body is at most 65535-4 bytes
				ch("max65526", func(m *clientHelloMsg) { m.serverName = c45str(65526, 5) }),
			}},
			{name: "ocspStapling", syms: []c45sym{
				ch("off", func(m *clientHelloMsg) {}),
				ch("on", func(m *clientHelloMsg) { m.ocspStapling = true }),
			}},
			{name: "supportedCurves", syms: []c45sym{
				ch("none", func(m *clientHelloMsg) {}),
				ch("three", func(m *clientHelloMsg) { m.supportedCurves = []CurveID{23, 24, 25} }),
				ch("one", func(m *clientHelloMsg) { m.supportedCurves = []CurveID{0x1d} }),
			}, solo: []c45sym{
				ch("max32764", func(m *clientHelloMsg) { m.supportedCurves = c45curves(32764) }),
			}},
			{name: "supportedPoints", syms: []c45sym{
				ch("none", func(m *clientHelloMsg) {}),
				ch("one", func(m *clientHelloMsg) { m.supportedPoints = []byte{0} }),
				ch("three", func(m *clientHelloMsg) { m.supportedPoints = []byte{0, 1, 2} }),
			}, solo: []c45sym{
				ch("max255", func(m *clientHelloMsg) { m.supportedPoints = c45pat(255, 0) }),
			}},
			{name: "ticket", syms: pick(th, []c45sym{
				ch("off", func(m *clientHelloMsg) {}),
				ch("on-empty", func(m *clientHelloMsg) { m.ticketSupported = true }),
				ch("on-3", func(m *clientHelloMsg) { m.ticketSupported = true; m.sessionTicket = []byte{9, 8, 7} }),
			}, []c45sym{
				ch("on-300", func(m *clientHelloMsg) { m.ticketSupported = true; m.sessionTicket = c45pat(300, 0x21) }),
			}), solo: []c45sym{
				ch("on-65000", func(m *clientHelloMsg) { m.ticketSupported = true; m.sessionTicket = c45pat(65000, 0x22) }),
			}},
			{name: "signatureAndHashes", syms: []c45sym{
				ch("none", func(m *clientHelloMsg) {}),
				ch("three", func(m *clientHelloMsg) { m.signatureAndHashes = []signatureAndHash{{4, 1}, {2, 1}, {4, 3}} }),
				ch("one", func(m *clientHelloMsg) { m.signatureAndHashes = []signatureAndHash{{4, 1}} }),
			}},
			{name: "secureRenegotiation", syms: []c45sym{
				ch("off", func(m *clientHelloMsg) {}),
				ch("on", func(m *clientHelloMsg) { m.secureRenegotiation = true }),
			}},
			{name: "alpnProtocols", syms: pick(th, []c45sym{
				ch("none", func(m *clientHelloMsg) {}),
				ch("two", func(m *clientHelloMsg) { m.alpnProtocols = []string{"h2", "http/1.1"} }),
				ch("one", func(m *clientHelloMsg) { m.alpnProtocols = []string{"h2"} }),
			}, []c45sym{
				ch("one255", func(m *clientHelloMsg) { m.alpnProtocols = []string{c45str(255, 1)} }),
			})},
		}
		// The SCSV cipher suite value *is* the secure-renegotiation signal: a hello that lists it
		// has secureRenegotiation set (value-domain constraint, see assumptions).
		d.valid = func(idx []int) bool { return !(idx[fSuites] == 2 && idx[fReneg] == 0) }
		d.rich = []int{0, 0, 1, 1, 1, 1, 1, 1, 1, 1, 2, 1, 1, 1}
		doms = append(doms, d)
	}

	// ---- serverHello
	{
		sh := func(name string, f func(m *serverHelloMsg)) c45sym {
			return c45sym{name, func(m handshakeMessage) { f(m.(*serverHelloMsg)) }}
		}
		d := &c45dom{name: "serverHello", parser: c45parserIdx("serverHello")}
		d.fields = []c45field{
			{name: "vers", syms: pick(th, []c45sym{
				sh("tls12", func(m *serverHelloMsg) { m.vers = 0x0303 }),
				sh("ssl30", func(m *serverHelloMsg) { m.vers = 0x0300 }),
			}, []c45sym{sh("ffff", func(m *serverHelloMsg) { m.vers = 0xffff })})},
			{name: "random", syms: pick(th, []c45sym{
				sh("pattern", func(m *serverHelloMsg) { m.random = c45pat(32, 0x31) }),
			}, []c45sym{sh("zero", func(m *serverHelloMsg) { m.random = make([]byte, 32) })})},
			{name: "sessionId", syms: []c45sym{
				sh("empty", func(m *serverHelloMsg) {}),
				sh("32", func(m *serverHelloMsg) { m.sessionId = c45pat(32, 0x61) }),
				sh("1", func(m *serverHelloMsg) { m.sessionId = []byte{1} }),
			}},
			{name: "cipherSuite", syms: []c45sym{
				sh("c02f", func(m *serverHelloMsg) { m.cipherSuite = 0xc02f }),
				sh("0000", func(m *serverHelloMsg) { m.cipherSuite = 0 }),
				sh("ffff", func(m *serverHelloMsg) { m.cipherSuite = 0xffff }),
			}},
			{name: "compressionMethod", syms: []c45sym{
				sh("null", func(m *serverHelloMsg) {}),
				sh("ff", func(m *serverHelloMsg) { m.compressionMethod = 0xff }),
			}},
			{name: "npn", syms: pick(th, []c45sym{
				sh("off", func(m *serverHelloMsg) {}),
				sh("on-two", func(m *serverHelloMsg) { m.nextProtoNeg = true; m.nextProtos = []string{"h2", "spdy/3.1"} }),
				sh("on-none", func(m *serverHelloMsg) { m.nextProtoNeg = true }),
				sh("on-one", func(m *serverHelloMsg) { m.nextProtoNeg = true; m.nextProtos = []string{"x"} }),
			}, []c45sym{
				sh("on-255", func(m *serverHelloMsg) { m.nextProtoNeg = true; m.nextProtos = []string{c45str(255, 2), "h2"} }),
			})},
			{name: "ocspStapling", syms: []c45sym{
				sh("off", func(m *serverHelloMsg) {}),
				sh("on", func(m *serverHelloMsg) { m.ocspStapling = true }),
			}},
			{name: "ticketSupported", syms: []c45sym{
				sh("off", func(m *serverHelloMsg) {}),
				sh("on", func(m *serverHelloMsg) { m.ticketSupported = true }),
			}},
			{name: "secureRenegotiation", syms: []c45sym{
				sh("off", func(m *serverHelloMsg) {}),
				sh("on", func(m *serverHelloMsg) { m.secureRenegotiation = true }),
			}},
			{name: "alpnProtocol", syms: pick(th, []c45sym{
				sh("none", func(m *serverHelloMsg) {}),
				sh("h2", func(m *serverHelloMsg) { m.alpnProtocol = "h2" }),
				sh("1", func(m *serverHelloMsg) { m.alpnProtocol = "x" }),
			}, []c45sym{
				sh("255", func(m *serverHelloMsg) { m.alpnProtocol = c45str(255, 4) }),
			})},
		}
		d.rich = []int{0, 0, 1, 0, 0, 1, 1, 1, 1, 1}
		doms = append(doms, d)
	}

	// ---- certificate (ASN.1Cert<1..2^24-1>: elements are never empty)
	{
		certSyms := func(i int) []c45sym {
			set := func(name string, mk func() []byte) c45sym {
				return c45sym{name, func(m handshakeMessage) {
					c := m.(*certificateMsg)
					c.certificates = append(c.certificates, mk())
				}}
			}
			return []c45sym{
				{"absent", func(m handshakeMessage) {}},
				set("3", func() []byte { return c45pat(3, byte(0x30+i)) }),
				set("1", func() []byte { return []byte{byte(0xa0 + i)} }),
				set("300", func() []byte { return c45pat(300, byte(0x40+i)) }),
			}
		}
		d := &c45dom{name: "certificate", parser: c45parserIdx("certificate")}
		for i := 0; i < 3; i++ {
			f := c45field{name: fmt.Sprintf("cert%d", i), syms: certSyms(i)}
			if i == 0 {
				f.solo = []c45sym{{"70000", func(m handshakeMessage) {
					c := m.(*certificateMsg)
					c.certificates = append(c.certificates, c45pat(70000, 0x55))
				}}}
			}
			d.fields = append(d.fields, f)
		}
		d.valid = c45listValid(0, 3)
		d.rich = []int{1, 3, 2}
		doms = append(doms, d)
	}

	// ---- opaque-body messages
	blob := func(name string, set func(m handshakeMessage, b []byte), sizes []int, soloSize int) *c45dom {
		d := &c45dom{name: name, parser: c45parserIdx(name)}
		f := c45field{name: "body"}
		for _, n := range sizes {
			n := n
			f.syms = append(f.syms, c45sym{strconv.Itoa(n), func(m handshakeMessage) { set(m, c45pat(n, 0x70)) }})
		}
		if soloSize > 0 {
			f.solo = []c45sym{{strconv.Itoa(soloSize), func(m handshakeMessage) { set(m, c45pat(soloSize, 0x71)) }}}
		}
		d.fields = []c45field{f}
		d.rich = []int{1}
		return d
	}
	doms = append(doms, blob("serverKeyExchange", func(m handshakeMessage, b []byte) { m.(*serverKeyExchangeMsg).key = b }, []int{0, 3, 1, 300}, 70000))
	doms = append(doms, blob("clientKeyExchange", func(m handshakeMessage, b []byte) { m.(*clientKeyExchangeMsg).ciphertext = b }, []int{0, 3, 1, 300}, 70000))
	doms = append(doms, blob("finished", func(m handshakeMessage, b []byte) { m.(*finishedMsg).verifyData = b }, []int{12, 36, 0}, 0))
	doms = append(doms, blob("newSessionTicket", func(m handshakeMessage, b []byte) { m.(*newSessionTicketMsg).ticket = b }, []int{0, 3, 1, 300}, 65535))

	// ---- nextProto (opaque selected_protocol<0..255>, padding to a multiple of 32)
	{
		sizes := []int{0, 2, 1, 29, 30, 31, 61, 62, 63, 255}
		if th {
			sizes = nil
			for n := 0; n <= 255; n++ {
				sizes = append(sizes, n)
			}
		}
		d := &c45dom{name: "nextProto", parser: c45parserIdx("nextProto")}
		f := c45field{name: "proto"}
		for _, n := range sizes {
			n := n
			f.syms = append(f.syms, c45sym{strconv.Itoa(n), func(m handshakeMessage) { m.(*nextProtoMsg).proto = c45str(n, 7) }})
		}
		d.fields = []c45field{f}
		d.rich = []int{1}
		doms = append(doms, d)
	}

	// ---- certificateStatus (OCSPResponse<1..2^24-1>; any other status type carries nothing)
	{
		cs := func(name string, t uint8, resp []byte) c45sym {
			return c45sym{name, func(m handshakeMessage) {
				c := m.(*certificateStatusMsg)
				c.statusType, c.response = t, resp
			}}
		}
		d := &c45dom{name: "certificateStatus", parser: c45parserIdx("certificateStatus")}
		d.fields = []c45field{{name: "status", syms: []c45sym{
			cs("ocsp-3", 1, c45pat(3, 0x80)),
			cs("ocsp-1", 1, []byte{0x30}),
			cs("ocsp-300", 1, c45pat(300, 0x81)),
			cs("type42", 42, nil),
			cs("type0", 0, nil),
			cs("type255", 255, nil),
		}, solo: []c45sym{cs("ocsp-70000", 1, c45pat(70000, 0x82))}}}
		d.rich = []int{2}
		doms = append(doms, d)
	}

	// ---- serverHelloDone
	doms = append(doms, &c45dom{name: "serverHelloDone", parser: c45parserIdx("serverHelloDone"), rich: []int{}})

	// ---- certificateRequest (certificate_types<1..255>, DistinguishedName<1..2^16-1>)
	for _, sig := range []bool{false, true} {
		name := "certificateRequest-nosig"
		if sig {
			name = "certificateRequest-sig"
		}
		cr := func(name string, f func(m *certificateRequestMsg)) c45sym {
			return c45sym{name, func(m handshakeMessage) { f(m.(*certificateRequestMsg)) }}
		}
		d := &c45dom{name: name, parser: c45parserIdx(name)}
		d.fields = []c45field{{name: "certificateTypes", syms: pick(th, []c45sym{
			cr("one", func(m *certificateRequestMsg) { m.certificateTypes = []byte{1} }),
			cr("three", func(m *certificateRequestMsg) { m.certificateTypes = []byte{1, 2, 64} }),
		}, []c45sym{
			cr("255", func(m *certificateRequestMsg) { m.certificateTypes = c45pat(255, 1) }),
		})}}
		first := 1
		if sig {
			first = 2
			d.fields = append(d.fields, c45field{name: "signatureAndHashes", syms: []c45sym{
				cr("one", func(m *certificateRequestMsg) { m.signatureAndHashes = []signatureAndHash{{4, 1}} }),
				cr("three", func(m *certificateRequestMsg) { m.signatureAndHashes = []signatureAndHash{{4, 1}, {2, 3}, {255, 255}} }),
				cr("200", func(m *certificateRequestMsg) {
					for i := 0; i < 200; i++ {
						m.signatureAndHashes = append(m.signatureAndHashes, signatureAndHash{byte(i), byte(255 - i)})
					}
				}),
			}})
		}
		for i := 0; i < 3; i++ {
			i := i
			add := func(name string, mk func() []byte) c45sym {
				return cr(name, func(m *certificateRequestMsg) { m.certificateAuthorities = append(m.certificateAuthorities, mk()) })
			}
			f := c45field{name: fmt.Sprintf("ca%d", i), syms: []c45sym{
				cr("absent", func(m *certificateRequestMsg) {}),
				add("3", func() []byte { return c45pat(3, byte(0x90+i)) }),
				add("1", func() []byte { return []byte{byte(0xb0 + i)} }),
				add("300", func() []byte { return c45pat(300, byte(0x93+i)) }),
			}}
			if i == 0 {
				f.solo = []c45sym{add("65000", func() []byte { return c45pat(65000, 0x99) })}
			}
			d.fields = append(d.fields, f)
		}
		d.valid = c45listValid(first, 3)
		if sig {
			d.rich = []int{1, 1, 1, 3, 2}
		} else {
			d.rich = []int{1, 1, 3, 2}
		}
		doms = append(doms, d)
	}

	// ---- certificateVerify
	for _, sig := range []bool{false, true} {
		name := "certificateVerify-nosig"
		if sig {
			name = "certificateVerify-sig"
		}
		cv := func(name string, f func(m *certificateVerifyMsg)) c45sym {
			return c45sym{name, func(m handshakeMessage) { f(m.(*certificateVerifyMsg)) }}
		}
		d := &c45dom{name: name, parser: c45parserIdx(name)}
		if sig {
			d.fields = append(d.fields, c45field{name: "signatureAndHash", syms: []c45sym{
				cv("sha256-rsa", func(m *certificateVerifyMsg) { m.signatureAndHash = signatureAndHash{4, 1} }),
				cv("zero", func(m *certificateVerifyMsg) {}),
				cv("ffff", func(m *certificateVerifyMsg) { m.signatureAndHash = signatureAndHash{255, 255} }),
			}})
			d.rich = []int{0, 1}
		} else {
			d.rich = []int{1}
		}
		d.fields = append(d.fields, c45field{name: "signature", syms: []c45sym{
			cv("0", func(m *certificateVerifyMsg) {}),
			cv("3", func(m *certificateVerifyMsg) { m.signature = c45pat(3, 0xc0) }),
			cv("1", func(m *certificateVerifyMsg) { m.signature = []byte{0xc1} }),
			cv("300", func(m *certificateVerifyMsg) { m.signature = c45pat(300, 0xc2) }),
		}, solo: []c45sym{
			cv("65535", func(m *certificateVerifyMsg) { m.signature = c45pat(65535, 0xc3) }),
		}})
		doms = append(doms, d)
	}

	// ---- sessionState (bfe's own ticket plaintext format; empty elements are allowed)
	{
		ss := func(name string, f func(m *sessionState)) c45sym {
			return c45sym{name, func(m handshakeMessage) { f(m.(*sessionState)) }}
		}
		d := &c45dom{name: "sessionState", parser: c45parserIdx("sessionState")}
		d.fields = []c45field{
			{name: "vers", syms: []c45sym{
				ss("tls12", func(m *sessionState) { m.vers = 0x0303 }),
				ss("ffff", func(m *sessionState) { m.vers = 0xffff }),
			}},
			{name: "cipherSuite", syms: []c45sym{
				ss("c02f", func(m *sessionState) { m.cipherSuite = 0xc02f }),
				ss("0000", func(m *sessionState) {}),
			}},
			{name: "masterSecret", syms: []c45sym{
				ss("48", func(m *sessionState) { m.masterSecret = c45pat(48, 0xd0) }),
				ss("0", func(m *sessionState) {}),
				ss("300", func(m *sessionState) { m.masterSecret = c45pat(300, 0xd1) }),
			}, solo: []c45sym{ss("65535", func(m *sessionState) { m.masterSecret = c45pat(65535, 0xd2) })}},
		}
		for i := 0; i < 3; i++ {
			i := i
			add := func(name string, mk func() []byte) c45sym {
				return ss(name, func(m *sessionState) { m.certificates = append(m.certificates, mk()) })
			}
			f := c45field{name: fmt.Sprintf("cert%d", i), syms: []c45sym{
				ss("absent", func(m *sessionState) {}),
				add("3", func() []byte { return c45pat(3, byte(0xe0+i)) }),
				add("0", func() []byte { return nil }),
				add("300", func() []byte { return c45pat(300, byte(0xe3+i)) }),
			}}
			if i == 0 {
				f.solo = []c45sym{add("70000", func() []byte { return c45pat(70000, 0xe9) })}
			}
			d.fields = append(d.fields, f)
		}
		d.valid = c45listValid(3, 3)
		d.rich = []int{0, 0, 0, 1, 3, 2}
		doms = append(doms, d)
	}
	return doms
}

// ---------------------------------------------------------------------------------------
// independent RFC encoder: a tree of leaves, sequences, byte-length blocks and count blocks

type c45node struct {
	kind byte // 'l' leaf, 's' sequence, 'b' byte-length-prefixed block, 'c' element-count-prefixed list
	w    int
	leaf []byte
	kids []*c45node
}

func c45L(b ...byte) *c45node                 { return &c45node{kind: 'l', leaf: b} }
func c45U16(v uint16) *c45node                { return c45L(byte(v>>8), byte(v)) }
func c45S(kids ...*c45node) *c45node          { return &c45node{kind: 's', kids: kids} }
func c45B(w int, kids ...*c45node) *c45node   { return &c45node{kind: 'b', w: w, kids: kids} }
func c45Cnt(w int, kids ...*c45node) *c45node { return &c45node{kind: 'c', w: w, kids: kids} }
func c45Ext(id uint16, kids ...*c45node) *c45node {
	return c45S(c45U16(id), c45B(2, kids...))
}

func c45tree(m handshakeMessage) *c45node {
	switch a := m.(type) {
	case *clientHelloMsg:
		var su []byte
		for _, s := range a.cipherSuites {
			su = append(su, byte(s>>8), byte(s))
		}
		body := []*c45node{c45U16(a.vers), c45L(a.random...), c45B(1, c45L(a.sessionId...)), c45B(2, c45L(su...)), c45B(1, c45L(a.compressionMethods...))}
		var exts []*c45node
		if a.nextProtoNeg {
			exts = append(exts, c45Ext(13172))
		}
		if a.serverName != "" {
			exts = append(exts, c45Ext(0, c45B(2, c45L(0), c45B(2, c45L([]byte(a.serverName)...)))))
		}
		if a.ocspStapling {
			exts = append(exts, c45Ext(5, c45L(1), c45B(2), c45B(2)))
		}
		if len(a.supportedCurves) > 0 {
			var cu []byte
			for _, c := range a.supportedCurves {
				cu = append(cu, byte(c>>8), byte(c))
			}
			exts = append(exts, c45Ext(10, c45B(2, c45L(cu...))))
		}
		if len(a.supportedPoints) > 0 {
			exts = append(exts, c45Ext(11, c45B(1, c45L(a.supportedPoints...))))
		}
		if a.ticketSupported {
			exts = append(exts, c45Ext(35, c45L(a.sessionTicket...)))
		}
		if len(a.signatureAndHashes) > 0 {
			var sh []byte
			for _, s := range a.signatureAndHashes {
				sh = append(sh, s.hash, s.signature)
			}
			exts = append(exts, c45Ext(13, c45B(2, c45L(sh...))))
		}
		if a.secureRenegotiation {
			exts = append(exts, c45Ext(0xff01, c45B(1)))
		}
		if len(a.alpnProtocols) > 0 {
			var ps []*c45node
			for _, p := range a.alpnProtocols {
				ps = append(ps, c45B(1, c45L([]byte(p)...)))
			}
			exts = append(exts, c45Ext(16, c45B(2, ps...)))
		}
		if len(exts) > 0 {
			body = append(body, c45B(2, exts...))
		}
		return c45S(c45L(1), c45B(3, body...))
	case *serverHelloMsg:
		body := []*c45node{c45U16(a.vers), c45L(a.random...), c45B(1, c45L(a.sessionId...)), c45U16(a.cipherSuite), c45L(a.compressionMethod)}
		var exts []*c45node
		if a.nextProtoNeg {
			var ps []*c45node
			for _, p := range a.nextProtos {
				ps = append(ps, c45B(1, c45L([]byte(p)...)))
			}
			exts = append(exts, c45Ext(13172, ps...))
		}
		if a.ocspStapling {
			exts = append(exts, c45Ext(5))
		}
		if a.ticketSupported {
			exts = append(exts, c45Ext(35))
		}
		if a.secureRenegotiation {
			exts = append(exts, c45Ext(0xff01, c45B(1)))
		}
		if a.alpnProtocol != "" {
			exts = append(exts, c45Ext(16, c45B(2, c45B(1, c45L([]byte(a.alpnProtocol)...)))))
		}
		if len(exts) > 0 {
			body = append(body, c45B(2, exts...))
		}
		return c45S(c45L(2), c45B(3, body...))
	case *certificateMsg:
		var cs []*c45node
		for _, c := range a.certificates {
			cs = append(cs, c45B(3, c45L(c...)))
		}
		return c45S(c45L(11), c45B(3, c45B(3, cs...)))
	case *serverKeyExchangeMsg:
		return c45S(c45L(12), c45B(3, c45L(a.key...)))
	case *certificateStatusMsg:
		if a.statusType == 1 {
			return c45S(c45L(22), c45B(3, c45L(1), c45B(3, c45L(a.response...))))
		}
		return c45S(c45L(22), c45B(3, c45L(a.statusType)))
	case *serverHelloDoneMsg:
		return c45S(c45L(14), c45B(3))
	case *clientKeyExchangeMsg:
		return c45S(c45L(16), c45B(3, c45L(a.ciphertext...)))
	case *finishedMsg:
		return c45S(c45L(20), c45B(3, c45L(a.verifyData...)))
	case *nextProtoMsg:
		pad := 32 - (len(a.proto)+2)%32
		return c45S(c45L(67), c45B(3, c45B(1, c45L([]byte(a.proto)...)), c45B(1, c45L(make([]byte, pad)...))))
	case *certificateRequestMsg:
		body := []*c45node{c45B(1, c45L(a.certificateTypes...))}
		if a.hasSignatureAndHash {
			var sh []byte
			for _, s := range a.signatureAndHashes {
				sh = append(sh, s.hash, s.signature)
			}
			body = append(body, c45B(2, c45L(sh...)))
		}
		var cas []*c45node
		for _, ca := range a.certificateAuthorities {
			cas = append(cas, c45B(2, c45L(ca...)))
		}
		body = append(body, c45B(2, cas...))
		return c45S(c45L(13), c45B(3, body...))
	case *certificateVerifyMsg:
		var body []*c45node
		if a.hasSignatureAndHash {
			body = append(body, c45L(a.signatureAndHash.hash, a.signatureAndHash.signature))
		}
		body = append(body, c45B(2, c45L(a.signature...)))
		return c45S(c45L(15), c45B(3, body...))
	case *newSessionTicketMsg:
		return c45S(c45L(4), c45B(3, c45L(0, 0, 0, 0), c45B(2, c45L(a.ticket...))))
	case *sessionState:
		var cs []*c45node
		for _, c := range a.certificates {
			cs = append(cs, c45B(4, c45L(c...)))
		}
		return c45S(c45U16(a.vers), c45U16(a.cipherSuite), c45B(2, c45L(a.masterSecret...)), c45Cnt(2, cs...))
	}
	return nil
}

// one deviation applied to node number `node` (preorder over all nodes)
type c45lie struct {
	node int
	op   byte // 'd' declared += v, 'z' declared = 0, 'm' declared = max, 't' truncate content by v (own length honest), 'T' same with stale length, 'e' extend content by v zero bytes (honest), 'E' same stale, 'x' drop node, '2' duplicate node
	v    int
}

func (l c45lie) String() string { return fmt.Sprintf("node%d:%c:%d", l.node, l.op, l.v) }

type c45enc struct {
	lies []c45lie
	n    int
}

func c45be(v, w int) []byte {
	b := make([]byte, w)
	for i := w - 1; i >= 0; i-- {
		b[i] = byte(v)
		v >>= 8
	}
	return b
}

func (e *c45enc) enc(n *c45node) []byte {
	id := e.n
	e.n++
	var my []c45lie
	for _, l := range e.lies {
		if l.node == id {
			my = append(my, l)
		}
	}
	var content []byte
	if n.kind == 'l' {
		content = append(content, n.leaf...)
	}
	for _, k := range n.kids {
		content = append(content, e.enc(k)...)
	}
	var out []byte
	switch n.kind {
	case 'l', 's':
		out = content
		for _, l := range my {
			switch l.op {
			case 't':
				if l.v <= len(out) {
					out = out[:len(out)-l.v]
				}
			case 'e':
				out = append(out, make([]byte, l.v)...)
			}
		}
	case 'b', 'c':
		orig := len(content)
		if n.kind == 'c' {
			orig = len(n.kids)
		}
		decl := orig
		for _, l := range my {
			switch l.op {
			case 't', 'T':
				if l.v <= len(content) {
					content = content[:len(content)-l.v]
				}
				if l.op == 't' && n.kind == 'b' {
					decl = len(content)
				}
			case 'e', 'E':
				content = append(content, make([]byte, l.v)...)
				if l.op == 'e' && n.kind == 'b' {
					decl = len(content)
				}
			}
		}
		for _, l := range my {
			switch l.op {
			case 'd':
				decl += l.v
			case 'z':
				decl = 0
			case 'm':
				decl = 1<<(8*uint(n.w)) - 1
			}
		}
		if decl < 0 {
			decl = 0
		}
		out = append(c45be(decl, n.w), content...)
	}
	for _, l := range my {
		switch l.op {
		case 'x':
			out = nil
		case '2':
			out = append(append([]byte{}, out...), out...)
		}
	}
	return out
}

func c45encode(t *c45node, lies ...c45lie) []byte {
	e := &c45enc{lies: lies}
	return e.enc(t)
}

type c45nodeInfo struct {
	kind    byte
	content int // bytes of content (blocks) / elements (count lists) / bytes (leaf)
}

func c45nodes(t *c45node) []c45nodeInfo {
	var infos []c45nodeInfo
	var walk func(n *c45node) int
	walk = func(n *c45node) int {
		i := len(infos)
		infos = append(infos, c45nodeInfo{kind: n.kind})
		size := len(n.leaf)
		for _, k := range n.kids {
			size += walk(k)
		}
		infos[i].content = size
		if n.kind == 'c' {
			infos[i].content = len(n.kids)
		}
		if n.kind == 'b' || n.kind == 'c' {
			size += n.w
		}
		return size
	}
	walk(t)
	return infos
}

// c45singleLies lists every single deviation of the tree.
func c45singleLies(t *c45node) []c45lie {
	var lies []c45lie
	for i, inf := range c45nodes(t) {
		if i > 0 {
			lies = append(lies, c45lie{i, 'x', 0}, c45lie{i, '2', 0})
		}
		switch inf.kind {
		case 'b', 'c':
			lies = append(lies, c45lie{i, 'd', 1}, c45lie{i, 'd', 2}, c45lie{i, 'd', -1}, c45lie{i, 'd', -2}, c45lie{i, 'z', 0}, c45lie{i, 'm', 0})
			if inf.kind == 'b' {
				for _, tr := range c45truncs(inf.content) {
					lies = append(lies, c45lie{i, 't', tr}, c45lie{i, 'T', tr})
				}
				lies = append(lies, c45lie{i, 'e', 1}, c45lie{i, 'E', 1}, c45lie{i, 'e', 2}, c45lie{i, 'E', 2})
			}
		case 'l':
			for _, tr := range c45truncs(inf.content) {
				lies = append(lies, c45lie{i, 't', tr})
			}
			lies = append(lies, c45lie{i, 'e', 1})
		}
	}
	return lies
}

func c45truncs(n int) []int {
	var ts []int
	for t := 1; t <= n && t <= 6; t++ {
		ts = append(ts, t)
	}
	if n > 6 {
		ts = append(ts, n-1, n)
	}
	return ts
}

// c45lengthLies: the declared-length lies only (used for pairs).
func c45lengthLies(t *c45node) []c45lie {
	var lies []c45lie
	for i, inf := range c45nodes(t) {
		if inf.kind == 'b' || inf.kind == 'c' {
			lies = append(lies, c45lie{i, 'd', 1}, c45lie{i, 'd', -1}, c45lie{i, 'z', 0}, c45lie{i, 'm', 0}, c45lie{i, 'd', 2}, c45lie{i, 'd', -2})
			if inf.kind == 'b' && inf.content > 0 {
				lies = append(lies, c45lie{i, 't', 1}, c45lie{i, 'e', 1})
			}
		}
	}
	return lies
}

// ---------------------------------------------------------------------------------------
// the checks

type c45h struct {
	r        *vk.Run
	evals    int64
	nontriv  int64
	out      map[string]int64
	culprits map[string][][][2]int // per domain/outcome: known culprit sets {(field, sym)} tried first
}

func (h *c45h) flush() {
	h.r.Evals(h.evals)
	h.r.NontrivialN(h.nontriv)
	for k, v := range h.out {
		h.r.OutcomeN(k, v)
	}
	h.evals, h.nontriv = 0, 0
	h.out = map[string]int64{}
}

func c45panicKind(val string) string {
	first := val
	if i := strings.IndexByte(val, '\n'); i >= 0 {
		first = val[:i]
	}
	switch {
	case strings.Contains(first, "index out of range"):
		return "index-out-of-range"
	case strings.Contains(first, "slice bounds out of range"):
		return "slice-bounds-out-of-range"
	case strings.Contains(first, "nil pointer"):
		return "nil-deref"
	case strings.Contains(first, "makeslice"):
		return "makeslice"
	}
	return "other"
}

func c45pid(pi int, data []byte) string {
	return "P|" + c45parsers[pi].name + "|" + hex.EncodeToString(data)
}

// parse runs one parse case. The slice handed to unmarshal has cap == len.
func (h *c45h) parse(pi int, data []byte, nontrivial bool) {
	if h.r.Replaying() {
		return // replay goes through parseOne directly
	}
	h.evals++
	if nontrivial {
		h.nontriv++
	}
	h.parseOne(pi, data)
}

func (h *c45h) parseOne(pi int, data []byte) {
	p := c45parsers[pi]
	data = data[:len(data):len(data)]
	m := p.mk()
	var ok bool
	panicked, val := vk.Guard(func() { ok = m.unmarshal(data) })
	if panicked {
		// classify: does the fault disappear when the slice has spare capacity?
		room := make([]byte, len(data)+1<<16)
		copy(room, data)
		for i := len(data); i < len(room); i++ {
			room[i] = 0xa5
		}
		m2 := p.mk()
		again, _ := vk.Guard(func() { m2.unmarshal(room[:len(data)]) })
		kind := "panic"
		if !again {
			kind = "reads-outside-message"
		}
		h.r.Violation(fmt.Sprintf("parse:%s:%s:%s:%s", p.name, kind, c45panicKind(val), vk.PanicSite(val)), c45pid(pi, data),
			fmt.Sprintf("unmarshal of %d bytes (cap == len) panicked; with spare capacity behind the message it %s. input=%x\n%s", len(data),
				map[bool]string{true: "panics as well", false: "does NOT panic, i.e. it silently reads bytes outside the message"}[again], c45clip(data), val))
		h.out["parse:"+p.name+":panic"]++
		return
	}
	if !ok {
		h.out["parse:"+p.name+":rejected"]++
		return
	}
	h.out["parse:"+p.name+":accepted"]++
	// A parsed message is a message value: marshalling it must give bytes that parse back equal.
	c45clearRaw(m)
	var x []byte
	if pm, v := vk.Guard(func() { x = m.marshal() }); pm {
		h.r.Violation(fmt.Sprintf("reparse:%s:marshal-panic:%s", p.name, vk.PanicSite(v)), c45pid(pi, data),
			fmt.Sprintf("message parsed from %x cannot be marshalled again: %s", c45clip(data), v))
		return
	}
	m3 := p.mk()
	var ok3 bool
	if pm, v := vk.Guard(func() { ok3 = m3.unmarshal(x[:len(x):len(x)]) }); pm {
		h.r.Violation(fmt.Sprintf("reparse:%s:unmarshal-panic:%s", p.name, vk.PanicSite(v)), c45pid(pi, data),
			fmt.Sprintf("message parsed from %x, marshalled to %x: unmarshal panics: %s", c45clip(data), c45clip(x), v))
		return
	}
	if !ok3 {
		h.r.Violation(fmt.Sprintf("reparse:%s:rejected", p.name), c45pid(pi, data),
			fmt.Sprintf("message parsed from %x marshals to %x which unmarshal rejects", c45clip(data), c45clip(x)))
		return
	}
	if d := c45diff(m, m3); d != "" {
		h.r.Violation(fmt.Sprintf("reparse:%s:differs-%s", p.name, d), c45pid(pi, data),
			fmt.Sprintf("message parsed from %x marshals to %x which parses back with a different %s", c45clip(data), c45clip(x), d))
	}
}

func c45clip(b []byte) []byte {
	if len(b) > 400 {
		return b[:400]
	}
	return b
}

// roundTrip outcome: "" equal, "marshal-panic", "unmarshal-panic", "rejected", "differs-<field>"
func c45roundTrip(d *c45dom, m1 handshakeMessage) (outcome, detail string, wire []byte) {
	var x []byte
	if p, v := vk.Guard(func() { x = m1.marshal() }); p {
		return "marshal-panic", v, nil
	}
	m2 := c45parsers[d.parser].mk()
	var ok bool
	if p, v := vk.Guard(func() { ok = m2.unmarshal(x[:len(x):len(x)]) }); p {
		return "unmarshal-panic", v, x
	}
	if !ok {
		return "rejected", "unmarshal returned false for the marshalled message", x
	}
	if f := c45diff(m1, m2); f != "" {
		return "differs-" + f, fmt.Sprintf("field %s: marshalled %+v, parsed back %+v", f, c45brief(m1), c45brief(m2)), x
	}
	return "", "", x
}

func c45brief(m handshakeMessage) string {
	s := fmt.Sprintf("%+v", m)
	if i := strings.Index(s, "raw:["); i >= 0 {
		if j := strings.Index(s[i:], "]"); j >= 0 {
			s = s[:i] + s[i+j+1:]
		}
	}
	if len(s) > 500 {
		s = s[:500] + "..."
	}
	return s
}

// culprit: 1-pass minimisation of the non-plain fields that keep the same outcome.
func (h *c45h) culprit(d *c45dom, idx []int, outcome string) string {
	same := func(t []int) bool {
		if !d.ok(t) {
			return false
		}
		o, _, _ := c45roundTrip(d, d.build(t))
		return o == outcome
	}
	name := func(set [][2]int) string {
		var parts []string
		for _, fs := range set {
			parts = append(parts, d.fields[fs[0]].name+"="+d.fields[fs[0]].syms[fs[1]].name)
		}
		if len(parts) == 0 {
			return "plain"
		}
		return strings.Join(parts, ",")
	}
	// known culprit sets first: the case contains the set, and the set alone reproduces the outcome
	key := d.name + "/" + outcome
	for _, set := range h.culprits[key] {
		match := true
		for _, fs := range set {
			if idx[fs[0]] != fs[1] {
				match = false
				break
			}
		}
		if match {
			return name(set)
		}
	}
	cur := append([]int(nil), idx...)
	for i := range cur {
		if cur[i] == 0 {
			continue
		}
		// plainest replacement that keeps the outcome: symbol 0, else symbol 1 (list elements
		// cannot become absent while a later element is present)
		keep := cur[i]
		for _, cand := range []int{0, 1} {
			if cand >= keep || cand >= len(d.fields[i].syms) {
				break
			}
			cur[i] = cand
			if same(cur) {
				break
			}
			cur[i] = keep
		}
	}
	var set [][2]int
	for i, s := range cur {
		if s != 0 {
			set = append(set, [2]int{i, s})
		}
	}
	h.culprits[key] = append(h.culprits[key], set)
	return name(set)
}

func (h *c45h) roundTripCase(d *c45dom, idx []int) {
	h.evals++
	nonPlain := false
	for _, s := range idx {
		if s != 0 {
			nonPlain = true
		}
	}
	if nonPlain {
		h.nontriv++
	}
	outcome, detail, wire := c45roundTrip(d, d.build(idx))
	if outcome == "" {
		h.out["roundtrip:"+d.name+":equal"]++
		return
	}
	h.out["roundtrip:"+d.name+":"+outcome]++
	id := "R|" + d.name + "|" + vk.IntsString(idx)
	sig := fmt.Sprintf("roundtrip:%s:%s:%s", d.name, h.culprit(d, idx, outcome), outcome)
	h.r.Violation(sig, id, fmt.Sprintf("%s; message {%s}; wire %x; %s", outcome, d.describe(idx), c45clip(wire), detail))
}

func (h *c45h) soloCase(d *c45dom, fi, si int) {
	h.evals++
	h.nontriv++
	m := c45parsers[d.parser].mk()
	for i, f := range d.fields {
		if i == fi {
			f.solo[si].set(m)
		} else {
			f.syms[0].set(m)
		}
	}
	outcome, detail, wire := c45roundTrip(d, m)
	if outcome == "" {
		h.out["roundtrip:"+d.name+":equal"]++
		return
	}
	h.out["roundtrip:"+d.name+":"+outcome]++
	id := fmt.Sprintf("S|%s|%d.%d", d.name, fi, si)
	sig := fmt.Sprintf("roundtrip:%s:%s=%s:%s", d.name, d.fields[fi].name, d.fields[fi].solo[si].name, outcome)
	h.r.Violation(sig, id, fmt.Sprintf("%s; maximal value %s=%s on the plain message; wire(prefix) %x; %s", outcome, d.fields[fi].name, d.fields[fi].solo[si].name, c45clip(wire), detail))
}

// product enumerates all index tuples of the domain.
func (d *c45dom) product(f func(idx []int)) {
	idx := make([]int, len(d.fields))
	for {
		if d.ok(idx) {
			f(idx)
		}
		i := len(idx) - 1
		for ; i >= 0; i-- {
			idx[i]++
			if idx[i] < len(d.fields[i].syms) {
				break
			}
			idx[i] = 0
		}
		if i < 0 {
			return
		}
	}
}

// samples: plain, rich, and every single-field variation of both (deduplicated by wire bytes).
type c45sample struct {
	idx  []int
	wire []byte
	tree *c45node
}

const c45maxSample = 700

func (d *c45dom) samples() []c45sample {
	var out []c45sample
	seen := map[string]bool{}
	add := func(idx []int) {
		if !d.ok(idx) {
			return
		}
		var x []byte
		m := d.build(idx)
		if p, _ := vk.Guard(func() { x = m.marshal() }); p || len(x) > c45maxSample || seen[string(x)] {
			return
		}
		seen[string(x)] = true
		out = append(out, c45sample{idx: append([]int(nil), idx...), wire: append([]byte(nil), x...), tree: c45tree(d.build(idx))})
	}
	plain := make([]int, len(d.fields))
	add(plain)
	add(d.rich)
	for _, base := range [][]int{plain, d.rich} {
		for fi, f := range d.fields {
			for si := range f.syms {
				t := append([]int(nil), base...)
				t[fi] = si
				add(t)
			}
		}
	}
	return out
}

func c45pairValues(b byte) []byte {
	var vs []byte
	seen := map[byte]bool{b: true}
	for _, v := range []byte{0, b - 1, b + 1, 0xff} {
		if !seen[v] {
			seen[v] = true
			vs = append(vs, v)
		}
	}
	return vs
}

func c45patchValues(b byte, all bool) []byte {
	var vs []byte
	if all {
		for v := 0; v < 256; v++ {
			if byte(v) != b {
				vs = append(vs, byte(v))
			}
		}
		return vs
	}
	seen := map[byte]bool{b: true}
	for _, v := range []byte{0, 1, b - 1, b + 1, b - 2, b + 2, b ^ 0x80, 0x7f, 0x80, 0xfe, 0xff} {
		if !seen[v] {
			seen[v] = true
			vs = append(vs, v)
		}
	}
	return vs
}

func TestVerifC45(t *testing.T) {
	r := vk.Start(t, "C45")
	defer r.Finish()
	th := r.Thorough()
	doms := c45domains(th)
	h := &c45h{r: r, out: map[string]int64{}, culprits: map[string][][][2]int{}}
	defer h.flush()

	// ---- replay: decode the case id and run exactly that case
	if r.Replaying() {
		id := r.ReplayCase()
		parts := strings.Split(id, "|")
		if len(parts) != 3 || !r.Case(id) {
			return
		}
		switch parts[0] {
		case "P":
			pi := c45parserIdx(parts[1])
			data, err := hex.DecodeString(parts[2])
			if pi < 0 || err != nil {
				t.Fatalf("bad replay id %q", id)
			}
			h.parseOne(pi, data)
		case "R", "S":
			for _, d := range doms {
				if d.name != parts[1] {
					continue
				}
				var idx []int
				for _, s := range strings.Split(parts[2], ".") {
					if s == "" {
						continue
					}
					v, _ := strconv.Atoi(s)
					idx = append(idx, v)
				}
				if parts[0] == "R" {
					h.roundTripCase(d, idx)
				} else {
					h.soloCase(d, idx[0], idx[1])
				}
			}
		}
		return
	}

	item := 0
	mine := func() bool { item++; return r.Mine(item) }
	stop := func(what string) bool { return r.Expired(what) }

	// ---- R: round trips
	var rtTotal int64
	for _, d := range doms {
		n := 0
		d.product(func(idx []int) {
			n++
			if !r.Mine(n) {
				return
			}
			h.roundTripCase(d, idx)
			rtTotal++
		})
		if th {
			for fi, f := range d.fields {
				for si := range f.solo {
					if mine() {
						h.soloCase(d, fi, si)
					}
				}
			}
		}
		h.flush()
	}
	// ---- P1: all byte strings <= 2, and header(len 0..3) + all bodies <= 2
	for pi := range c45parsers {
		if !mine() {
			continue
		}
		h.parse(pi, nil, false)
		h.parse(pi, []byte{}, false)
		b1 := make([]byte, 1)
		b2 := make([]byte, 2)
		for a := 0; a < 256; a++ {
			b1[0] = byte(a)
			h.parse(pi, b1, false)
			for b := 0; b < 256; b++ {
				b2[0], b2[1] = byte(a), byte(b)
				h.parse(pi, b2, false)
			}
		}
		for decl := 0; decl <= 3; decl++ {
			hdr := []byte{0x16, 0, 0, byte(decl)}
			h.parse(pi, hdr, false)
			b5 := append(append([]byte{}, hdr...), 0)
			b6 := append(append([]byte{}, hdr...), 0, 0)
			for a := 0; a < 256; a++ {
				b5[4] = byte(a)
				h.parse(pi, b5, false)
				for b := 0; b < 256; b++ {
					b6[4], b6[5] = byte(a), byte(b)
					h.parse(pi, b6, false)
				}
			}
		}
		h.flush()
	}

	// ---- P2..P5 per domain sample
	allSamples := map[string][]c45sample{}
	for _, d := range doms {
		allSamples[d.name] = d.samples()
	}
	// agreement of the independent RFC encoder with marshal (information only, never judged)
	if r.Mine(0) {
		for _, d := range doms {
			for _, s := range allSamples[d.name] {
				if bytes.Equal(c45encode(s.tree), s.wire) {
					h.out["info:rfc-encoder-same-bytes-as-marshal"]++
				} else {
					h.out["info:rfc-encoder-differs-from-marshal"]++
				}
			}
		}
	}
	var nSamples, nTreeInputs int64
	for _, d := range doms {
		ss := allSamples[d.name]
		pi := d.parser
		for si, s := range ss {
			if stop("P2-P6 samples") {
				break
			}
			if r.Mine(0) {
				nSamples++
			}
			L := len(s.wire)
			// P2a truncations and extensions
			if mine() {
				for k := 0; k <= L; k++ {
					h.parse(pi, s.wire[:k], true)
				}
				for _, tail := range [][]byte{{0}, {0xff}, {0, 0}, {0xff, 0xff}, {0, 0, 0, 0}} {
					h.parse(pi, append(append([]byte{}, s.wire...), tail...), true)
				}
				h.flush()
			}
			// P2b single-byte patches (thorough: every other value) and 2/3-byte windows
			if mine() {
				buf := append([]byte{}, s.wire...)
				for i := 0; i < L; i++ {
					o := buf[i]
					for _, v := range c45patchValues(o, th) {
						buf[i] = v
						h.parse(pi, buf, true)
					}
					buf[i] = o
					for w := 2; w <= 3 && i+w <= L; w++ {
						for _, v := range []byte{0, 0xff} {
							if buf[i] == v || buf[i+w-1] == v {
								continue // the window must really change its first and last byte (distinct by construction)
							}
							save := append([]byte{}, buf[i:i+w]...)
							for j := 0; j < w; j++ {
								buf[i+j] = v
							}
							h.parse(pi, buf, true)
							copy(buf[i:], save)
						}
					}
				}
				h.flush()
			}
			// P3 structure-aware deviations of the independent encoding
			if mine() && s.tree != nil {
				seen := map[string]bool{string(s.wire): true}
				honest := c45encode(s.tree)
				if !seen[string(honest)] {
					seen[string(honest)] = true
					h.parse(pi, honest, true)
				}
				singles := c45singleLies(s.tree)
				for _, l := range singles {
					in := c45encode(s.tree, l)
					if seen[string(in)] {
						continue
					}
					seen[string(in)] = true
					nTreeInputs++
					h.parse(pi, in, true)
				}
				if th {
					ll := c45lengthLies(s.tree)
					for a := 0; a < len(ll); a++ {
						for b := a + 1; b < len(ll); b++ {
							if ll[a].node == ll[b].node {
								continue
							}
							in := c45encode(s.tree, ll[a], ll[b])
							if seen[string(in)] {
								continue
							}
							seen[string(in)] = true
							nTreeInputs++
							h.parse(pi, in, true)
						}
					}
				}
				h.flush()
			}
			// P4 (thorough): every 2-byte window of the plain and the rich sample, all 65536 values
			if th && si < 2 {
				for i := 0; i+1 < L; i++ {
					if !mine() {
						continue
					}
					if stop("P4 windows") {
						break
					}
					buf := append([]byte{}, s.wire...)
					for a := 0; a < 256; a++ {
						buf[i] = byte(a)
						for b := 0; b < 256; b++ {
							buf[i+1] = byte(b)
							h.parse(pi, buf, true)
						}
					}
					h.flush()
				}
			}
			// P6 (thorough): every pair of positions of the plain and the rich sample x boundary values
			if th && si < 2 {
				buf := append([]byte{}, s.wire...)
				for i := 0; i < L; i++ {
					if !mine() {
						continue
					}
					if stop("P6 pairs") {
						break
					}
					oi := buf[i]
					for _, vi := range c45pairValues(oi) {
						buf[i] = vi
						for j := i + 1; j < L; j++ {
							oj := buf[j]
							for _, vj := range c45pairValues(oj) {
								buf[j] = vj
								h.parse(pi, buf, true)
							}
							buf[j] = oj
						}
					}
					buf[i] = oi
					h.flush()
				}
			}
			// P5 cross: this sample (plain / rich only) and its truncations into every other parser
			if si < 2 {
				for pj := range c45parsers {
					if pj == pi || !mine() {
						continue
					}
					for k := 4; k <= L; k++ {
						h.parse(pj, s.wire[:k], true)
					}
				}
				h.flush()
			}
		}
	}
	h.flush()
	if r.Mine(0) {
		r.Sample(map[string]interface{}{"family": "roundtrip", "message": doms[0].describe(doms[0].rich), "wire": hex.EncodeToString(allSamples["clientHello"][1].wire)})
		tr := allSamples["clientHello"][1].tree
		lies := c45singleLies(tr)
		l := lies[len(lies)/2]
		r.Sample(map[string]interface{}{"family": "structure-aware", "lie(node,op,value)": l.String(), "input": hex.EncodeToString(c45encode(tr, l))})
	}
	nd := 0
	for _, d := range doms {
		nd += len(allSamples[d.name])
	}
	r.Set("bounds", fmt.Sprintf("tier=%s; %d message types / %d parser configurations; round trip: full product of the field alphabets (%s) + maximal solo values (thorough); parse: all strings <=2 bytes, header+<=2-byte bodies, %d samples (<=%d bytes) x {every truncation, 5 tails, per-byte %s, 2/3-byte 00/ff windows, every single structural lie%s}%s, plain/rich samples of every type into every other parser",
		r.Tier(), len(doms), len(c45parsers), c45domSizes(doms), nd, c45maxSample,
		map[bool]string{false: "boundary values", true: "all 255 other values"}[th],
		map[bool]string{false: "", true: " + all pairs of length lies"}[th],
		map[bool]string{false: "", true: ", every 2-byte window of plain+rich samples x 65536 values, every pair of byte positions of plain+rich samples x {0,-1,+1,ff}^2"}[th]))
	r.Add("sum_roundtrip_cases", rtTotal)
	r.Add("sum_samples_mutated", nSamples)
	r.Add("sum_structure_aware_inputs", nTreeInputs)
}

func c45domSizes(doms []*c45dom) string {
	var parts []string
	for _, d := range doms {
		n := 0
		d.product(func([]int) { n++ })
		parts = append(parts, fmt.Sprintf("%s=%d", d.name, n))
	}
	return strings.Join(parts, " ")
}
