//go:build verif

package bal_gslb

// C07VerifResetRR resets the round-robin credits of every sub-cluster (see bal_slb).
func (bal *BalanceGslb) C07VerifResetRR() {
	bal.lock.Lock()
	defer bal.lock.Unlock()
	for _, sub := range bal.subClusters {
		if sub.backends != nil {
			sub.backends.C07VerifResetRR()
		}
	}
}
