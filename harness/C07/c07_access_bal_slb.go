//go:build verif

package bal_slb

// C07VerifResetRR puts the round-robin credit of every backend of the sub-cluster back to its
// initial value (what Init leaves), so that every execution of check C07 starts from the same
// balancer state on a shared server object.
func (brr *BalanceRR) C07VerifResetRR() {
	brr.Lock()
	brr.backends.ResetWeight()
	brr.next = 0
	brr.Unlock()
}
