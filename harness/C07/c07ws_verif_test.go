//go:build verif

package bfe_server

// C07, websocket sessions — the other user of BfeBackend's active-connection count.
//
// bfe_websocket's server side (NewProtoHandler -> serverConn.serve -> findBackend ->
// websocketHandshake -> websocketDataTransfer -> shutdown, with its IncConnNum / DecConnNum
// sites) is driven through its exported API exactly as bfe_server wires it: a Server with a
// BalanceHandler (scripted: returns one of two real *backend.BfeBackend objects, or an error),
// a handshake request read from an in-memory client connection, a MockResponseWriter (bfe's own
// hijackable writer). findBackend dials with net.DialTimeout and has no seam, so the backends
// are loopback TCP endpoints inside the test process: one listener that accepts and plays the
// scripted backend role, and one closed port that refuses. No bubble: these executions run in
// real time (a finished transfer waits bfe's fixed 250 ms shutdown timer), many of them
// concurrently, each on its own backend objects; every sample is taken at a point that is
// ordered after the counter operations by the session's own message flow (never by sleeping).
//
// Session script: up to R connect attempts, each = balancer error | backend i refuses |
// backend i accepts; after accept the handshake is ok (101) | rejected (403) | aborted (backend
// closes without answering); an established session ends by client close | backend close |
// graceful shutdown (CloseNotifyCh). Executions: one session (R 1..3), two sequential sessions,
// two overlapping sessions (A established and held while B runs completely, then A ends).
//
// Model (statement): a session is in flight on backend X from the moment it is established
// on X (handshake relayed to the client) until serve returned; while findBackend is between
// attempts the session is assigned to no backend. Oracle: ConnNum == model at every balancer
// call (earlier attempts are resolved), when a session is established, after every finished
// session and at the end (all zero); never negative.
//
// bfe_stream (TLS stream proxy) uses the same counter with the same structure (findBackend with
// net.DialTimeout, deferred DecConnNum in serve). The same scripts drive its real
// NewProtoHandler -> serve with a bfe_tls server Conn over an in-memory pipe whose client never
// starts a TLS handshake: connect attempts as above, no handshake phase (every accepted session
// is "established" = the loopback backend accepted its connection and the copy loop waits),
// endings client close (the pending server-side handshake read fails: error ending) | backend
// close | graceful shutdown, the latter two followed by the client going away (the pending
// handshake read keeps bfe_tls's Close waiting otherwise - an artefact of the silent client).
// Each stream execution has its own loopback listener.

import (
	"bufio"
	"errors"
	"fmt"
	"io"
	"net"
	"strings"
	"sync"
	"testing"
	"time"

	"github.com/baidu/go-lib/web-monitor/metrics"

	"github.com/bfenetworks/bfe/bfe_balance/backend"
	"github.com/bfenetworks/bfe/bfe_bufio"
	"github.com/bfenetworks/bfe/bfe_http"
	"github.com/bfenetworks/bfe/bfe_stream"
	"github.com/bfenetworks/bfe/bfe_tls"
	"github.com/bfenetworks/bfe/bfe_websocket"
	"github.com/bfenetworks/bfe/verifkit/vk"
)

const c07wsWait = 20 * time.Second // machinery timeout (never an oracle)

// ---- scripts --------------------------------------------------------------------------------

// one session: attempts like "E", "1r", "2r", then optionally "1a"/"2a" + handshake + ending
type c07wsScript struct {
	attempts []string // E | 1r | 2r | 1a | 2a (an "a" attempt is always the last one)
	hs       string   // ok | rej | cls   (only after an accept)
	end      string   // cc | bc | gs     (only after hs ok)
}

func (s c07wsScript) String() string {
	return strings.Join(s.attempts, ",") + "/" + s.hs + "/" + s.end
}

func (s c07wsScript) established() bool { return s.hs == "ok" }

func (s c07wsScript) acceptedOn() string {
	if n := len(s.attempts); n > 0 && strings.HasSuffix(s.attempts[n-1], "a") {
		return "w" + s.attempts[n-1][:1]
	}
	return ""
}

func (s c07wsScript) class() string {
	switch {
	case s.hs == "ok":
		return "established-" + s.end
	case s.hs == "rej":
		return "handshake-rejected"
	case s.hs == "cls":
		return "handshake-aborted"
	}
	return "no-backend"
}

func c07wsScripts(R int) []c07wsScript {
	var out []c07wsScript
	var rec func(prefix []string)
	rec = func(prefix []string) {
		for _, acc := range []string{"1a", "2a"} {
			att := append(append([]string{}, prefix...), acc)
			out = append(out, c07wsScript{attempts: att, hs: "rej"}, c07wsScript{attempts: att, hs: "cls"})
			for _, e := range []string{"cc", "bc", "gs"} {
				out = append(out, c07wsScript{attempts: att, hs: "ok", end: e})
			}
		}
		for _, f := range []string{"E", "1r", "2r"} {
			att := append(append([]string{}, prefix...), f)
			if len(att) == R {
				out = append(out, c07wsScript{attempts: att})
			} else {
				rec(att)
			}
		}
	}
	rec(nil)
	return out
}

// ---- loopback backend -----------------------------------------------------------------------

type c07wsBackendCtl struct {
	hs      string        // ok | rej | cls
	closeCh chan struct{} // closed by the harness: backend side closes the connection
}

type c07wsNet struct {
	ln       net.Listener
	liveAddr string
	deadAddr string
	mu       sync.Mutex
	ctl      map[string]*c07wsBackendCtl // request path -> script of the backend side
}

var (
	c07wsNetOnce sync.Once
	c07wsN       *c07wsNet
	c07wsNetErr  error
)

func c07wsGetNet() (*c07wsNet, error) {
	c07wsNetOnce.Do(func() {
		ln, err := net.Listen("tcp", "127.0.0.1:0")
		if err != nil {
			c07wsNetErr = err
			return
		}
		// an address that refuses connects for the whole run: a privileged loopback port nobody
		// listens on (a port freed by Listen+Close could be handed to another process)
		dead := ""
		for _, port := range []int{1, 2, 3, 4, 5, 6} {
			addr := fmt.Sprintf("127.0.0.1:%d", port)
			c, err := net.DialTimeout("tcp", addr, 2*time.Second)
			if err == nil {
				c.Close()
				continue
			}
			if strings.Contains(err.Error(), "refused") {
				dead = addr
				break
			}
		}
		if dead == "" {
			c07wsNetErr = errors.New("no refusing loopback port found")
			return
		}
		n := &c07wsNet{ln: ln, liveAddr: ln.Addr().String(), deadAddr: dead, ctl: map[string]*c07wsBackendCtl{}}
		go n.acceptLoop()
		c07wsN = n
	})
	return c07wsN, c07wsNetErr
}

func (n *c07wsNet) acceptLoop() {
	for {
		c, err := n.ln.Accept()
		if err != nil {
			return
		}
		go n.serveBackend(c)
	}
}

func (n *c07wsNet) serveBackend(c net.Conn) {
	defer c.Close()
	br := bufio.NewReader(c)
	line, err := br.ReadString('\n')
	if err != nil {
		return
	}
	for {
		l, err := br.ReadString('\n')
		if err != nil {
			return
		}
		if l == "\r\n" {
			break
		}
	}
	f := strings.Fields(line)
	if len(f) < 2 {
		return
	}
	n.mu.Lock()
	ctl := n.ctl[f[1]]
	n.mu.Unlock()
	if ctl == nil {
		return
	}
	switch ctl.hs {
	case "cls":
		return
	case "rej":
		io.WriteString(c, "HTTP/1.1 403 Forbidden\r\nContent-Length: 0\r\n\r\n")
	default:
		io.WriteString(c, "HTTP/1.1 101 Switching Protocols\r\nUpgrade: websocket\r\nConnection: Upgrade\r\n\r\n")
	}
	eof := make(chan struct{})
	go func() {
		io.Copy(io.Discard, br) // until bfe closes its side
		close(eof)
	}()
	select {
	case <-ctl.closeCh:
	case <-eof:
	}
}

// ---- one execution --------------------------------------------------------------------------

type c07wsSession struct {
	tag     string
	script  c07wsScript
	path    string
	ctl     *c07wsBackendCtl
	client  net.Conn
	hs      *bfe_http.Server
	done    chan struct{}
	estab   chan struct{} // client saw the end of the 101 response
	attempt int
	onX     string // backend the model has the session in flight on
}

type c07wsWorld struct {
	proto    string        // ws | stream
	ln       net.Listener  // stream: the execution's own accepting backend
	accepted chan struct{} // stream: one token per accepted backend connection
	id       string
	net      *c07wsNet
	R        int
	mu       sync.Mutex
	backs    map[string]*backend.BfeBackend
	cur      *c07wsSession // session whose findBackend is running
	all      []*c07wsSession
	events   []string
	viol     *c07viol
	herr     string
	minSeen  int
}

var c07wsNames = []string{"w1", "w2"}

func (w *c07wsWorld) check(point, class string) {
	if w.viol != nil {
		return
	}
	want := map[string]int{}
	for _, s := range w.all {
		if s.onX != "" {
			want[s.onX]++
		}
	}
	var got []string
	bad := ""
	kind := ""
	for _, n := range c07wsNames {
		g := w.backs[n].ConnNum()
		got = append(got, fmt.Sprintf("%s=%d(want %d)", n, g, want[n]))
		if g != want[n] && bad == "" {
			bad = n
			kind = "high"
			if g < want[n] {
				kind = "low"
			}
		}
	}
	if bad != "" {
		w.viol = &c07viol{sig: w.proto + "-" + point + ":" + class + ":" + kind,
			detail: fmt.Sprintf(w.proto+": at %s: ConnNum vs sessions in flight [%s]; history: %s", point, strings.Join(got, " "), strings.Join(w.events, "; "))}
	}
}

// balance is the BalanceHandler of the execution's websocket Server.
func (w *c07wsWorld) balance(req interface{}) (*backend.BfeBackend, error) {
	w.mu.Lock()
	defer w.mu.Unlock()
	s := w.cur
	if s == nil || s.attempt >= len(s.script.attempts) {
		w.herr = "balance handler called beyond the script"
		return nil, errors.New("verif: unexpected balance call")
	}
	prev := "first-attempt"
	if s.attempt > 0 {
		switch s.script.attempts[s.attempt-1] {
		case "E":
			prev = "after-balance-error"
		default:
			prev = "after-connect-refused"
		}
	}
	w.check("balance", prev)
	a := s.script.attempts[s.attempt]
	s.attempt++
	if a == "E" {
		w.events = append(w.events, s.tag+": balancer error")
		return nil, errors.New("verif: no backend")
	}
	b := w.backs["w"+a[:1]]
	if a[1] == 'r' {
		b.AddrInfo = w.net.deadAddr
		w.events = append(w.events, fmt.Sprintf("%s: balancer picks %s, connect is refused", s.tag, b.Name))
	} else {
		b.AddrInfo = w.net.liveAddr
		if w.proto == "stream" {
			b.AddrInfo = w.ln.Addr().String()
		}
		w.events = append(w.events, fmt.Sprintf("%s: balancer picks %s, connect is accepted, handshake %s", s.tag, b.Name, s.script.hs))
	}
	return b, nil
}

// start launches a session and returns when it is established or over.
func (w *c07wsWorld) start(tag string, sc c07wsScript) *c07wsSession {
	s := &c07wsSession{tag: tag, script: sc, path: "/ws/" + w.id + "/" + tag,
		ctl: &c07wsBackendCtl{hs: sc.hs, closeCh: make(chan struct{})}, done: make(chan struct{}), estab: make(chan struct{})}
	w.net.mu.Lock()
	w.net.ctl[s.path] = s.ctl
	w.net.mu.Unlock()
	cEnd, sEnd := net.Pipe()
	s.client = cEnd
	s.hs = &bfe_http.Server{CloseNotifyCh: make(chan bool), GracefulShutdownTimeout: 20 * time.Millisecond}
	w.mu.Lock()
	w.all = append(w.all, s)
	w.cur = s
	w.mu.Unlock()
	if w.proto == "stream" {
		go io.Copy(io.Discard, cEnd) // the client only swallows what the server side sends (alerts)
		go func() {
			defer close(s.done)
			tc := bfe_tls.Server(sEnd, &bfe_tls.Config{})
			h := bfe_stream.NewProtoHandler(&bfe_stream.Server{ConnectTimeout: 15000, ConnectRetryMax: w.R, BalanceHandler: w.balance})
			h(s.hs, tc, nil)
			sEnd.Close()
		}()
		if sc.established() {
			select {
			case <-w.accepted:
				w.mu.Lock()
				s.onX = sc.acceptedOn()
				w.events = append(w.events, fmt.Sprintf("%s: backend connection of %s accepted, session held", tag, s.onX))
				w.check("established", sc.class())
				w.mu.Unlock()
			case <-s.done:
				w.fail(tag + ": stream session ended although the script holds it")
			case <-time.After(c07wsWait):
				w.fail(tag + ": backend connection not accepted in time")
			}
		} else {
			w.waitDone(s)
		}
		return s
	}
	go func() {
		io.WriteString(cEnd, "GET "+s.path+" HTTP/1.1\r\nHost: example.org\r\nUpgrade: websocket\r\nConnection: Upgrade\r\n"+
			"Sec-WebSocket-Key: dGhlIHNhbXBsZSBub25jZQ==\r\nSec-WebSocket-Version: 13\r\n\r\n")
		// read what bfe sends; signal the end of a 101 response head
		var buf []byte
		tmp := make([]byte, 512)
		signalled := false
		for {
			n, err := cEnd.Read(tmp)
			buf = append(buf, tmp[:n]...)
			if !signalled && strings.HasPrefix(string(buf), "HTTP/1.1 101") && strings.Contains(string(buf), "\r\n\r\n") {
				signalled = true
				close(s.estab)
			}
			if err != nil {
				return
			}
		}
	}()
	go func() {
		defer close(s.done)
		br := bfe_bufio.NewReader(sEnd)
		bw := bfe_bufio.NewWriter(sEnd)
		brw := bfe_bufio.NewReadWriter(br, bw)
		req, err := bfe_http.ReadRequest(brw.Reader, 4096)
		if err != nil {
			w.mu.Lock()
			w.herr = "cannot read the handshake request: " + err.Error()
			w.mu.Unlock()
			sEnd.Close()
			return
		}
		rw := bfe_websocket.NewMockResponseWriter(sEnd, brw)
		h := bfe_websocket.NewProtoHandler(&bfe_websocket.Server{ConnectTimeout: 15000, ConnectRetryMax: w.R, BalanceHandler: w.balance})
		h(s.hs, rw, req)
		sEnd.Close()
	}()
	if sc.established() {
		select {
		case <-s.estab:
			w.mu.Lock()
			s.onX = sc.acceptedOn()
			w.events = append(w.events, fmt.Sprintf("%s: established on %s (client has the 101 response)", tag, s.onX))
			w.check("established", sc.class())
			w.mu.Unlock()
		case <-s.done:
			w.fail(tag + ": session ended although the script establishes it")
		case <-time.After(c07wsWait):
			w.fail(tag + ": not established in time")
		}
	} else {
		w.waitDone(s)
	}
	return s
}

func (w *c07wsWorld) fail(msg string) {
	w.mu.Lock()
	if w.herr == "" {
		st := bfe_websocket.GetWebSocketState()
		w.herr = fmt.Sprintf("%s (process-wide websocket error counters: connect=%d handshake=%d reject=%d proxy=%d balance=%d)", msg,
			st.WebSocketErrConnect.Get(), st.WebSocketErrHandshake.Get(), st.WebSocketErrBackendReject.Get(), st.WebSocketErrProxy.Get(), st.WebSocketErrBalance.Get())
	}
	w.mu.Unlock()
}

// finish ends an established session the way its script says and waits for serve to return.
func (w *c07wsWorld) finish(s *c07wsSession) {
	w.mu.Lock()
	w.events = append(w.events, s.tag+": ends by "+s.script.end)
	w.mu.Unlock()
	switch s.script.end {
	case "cc":
		s.client.Close()
	case "bc":
		close(s.ctl.closeCh)
	case "gs":
		select {
		case s.hs.CloseNotifyCh <- true:
		case <-time.After(c07wsWait):
			w.fail(s.tag + ": serve does not take the close notification")
		}
	}
	if w.proto == "stream" && s.script.end != "cc" {
		// the silent client of the stream executions never finished a TLS handshake; bfe_tls's
		// Close waits for the pending handshake read, so the client has to go away as well
		s.client.Close()
	}
	w.waitDone(s)
}

func (w *c07wsWorld) waitDone(s *c07wsSession) {
	select {
	case <-s.done:
	case <-time.After(c07wsWait):
		w.fail(s.tag + ": serve did not return in time")
		return
	}
	s.client.Close()
	w.net.mu.Lock()
	delete(w.net.ctl, s.path)
	w.net.mu.Unlock()
	w.mu.Lock()
	s.onX = ""
	if s.attempt != len(s.script.attempts) && w.herr == "" {
		w.herr = fmt.Sprintf("%s: %d of %d scripted attempts used", s.tag, s.attempt, len(s.script.attempts))
	}
	w.events = append(w.events, s.tag+": serve returned")
	w.check("after-session", s.script.class())
	w.mu.Unlock()
}

type c07wsCase struct {
	proto string // ws | stream
	kind  string // one | seq | ovl
	R     int
	a, b  c07wsScript
}

func (c c07wsCase) id() string {
	if c.kind == "one" {
		return fmt.Sprintf("%s-%s/R%d|%s", c.proto, c.kind, c.R, c.a)
	}
	return fmt.Sprintf("%s-%s/R%d|%s|%s", c.proto, c.kind, c.R, c.a, c.b)
}

func c07wsRun(n *c07wsNet, c c07wsCase) (*c07viol, string, []string) {
	w := &c07wsWorld{proto: c.proto, id: strings.NewReplacer("|", "_", ",", "", "/", "-").Replace(c.id()), net: n, R: c.R, backs: map[string]*backend.BfeBackend{}}
	for _, name := range c07wsNames {
		b := backend.NewBfeBackend()
		b.Name = name
		b.AddrInfo = n.liveAddr
		w.backs[name] = b
	}
	if c.proto == "stream" {
		ln, err := net.Listen("tcp", "127.0.0.1:0")
		if err != nil {
			return nil, "stream backend listener: " + err.Error(), nil
		}
		w.ln = ln
		w.accepted = make(chan struct{}, 8)
		defer ln.Close()
		go func() {
			for {
				bc, err := ln.Accept()
				if err != nil {
					return
				}
				w.mu.Lock()
				cur := w.cur
				w.mu.Unlock()
				w.accepted <- struct{}{}
				go func() {
					defer bc.Close()
					eof := make(chan struct{})
					go func() { io.Copy(io.Discard, bc); close(eof) }()
					select {
					case <-cur.ctl.closeCh:
					case <-eof:
					}
				}()
			}
		}()
	}
	ok := func() bool {
		w.mu.Lock()
		defer w.mu.Unlock()
		return w.viol == nil && w.herr == ""
	}
	switch c.kind {
	case "one":
		s := w.start("a", c.a)
		if c.a.established() && ok() {
			w.finish(s)
		}
	case "seq":
		s := w.start("a", c.a)
		if c.a.established() && ok() {
			w.finish(s)
		}
		if ok() {
			s2 := w.start("b", c.b)
			if c.b.established() && ok() {
				w.finish(s2)
			}
		}
	case "ovl":
		s := w.start("a", c.a) // established and held
		var s2 *c07wsSession
		if ok() {
			s2 = w.start("b", c.b)
			if c.b.established() && ok() {
				w.finish(s2)
			}
		}
		if c.a.established() {
			w.finish(s)
		}
	}
	// leave nothing behind
	for _, s := range w.all {
		select {
		case <-s.done:
		default:
			s.client.Close()
			select {
			case <-s.done:
			case <-time.After(c07wsWait):
			}
		}
	}
	w.mu.Lock()
	defer w.mu.Unlock()
	for _, s := range w.all {
		s.onX = ""
	}
	w.events = append(w.events, "all sessions over")
	w.check("end", "all-over")
	return w.viol, w.herr, w.events
}

// c07wsFamilies runs the websocket executions of this shard.
func c07wsFamilies(t *testing.T, r *vk.Run) {
	n, err := c07wsGetNet()
	if err != nil {
		t.Fatalf("c07ws: loopback listener: %v", err)
	}
	if st := bfe_websocket.GetWebSocketState(); st.WebSocketPanicConn == nil {
		st.WebSocketPanicConn = new(metrics.Counter)
		st.WebSocketErrConnect = new(metrics.Counter)
		st.WebSocketErrHandshake = new(metrics.Counter)
		st.WebSocketErrBackendReject = new(metrics.Counter)
		st.WebSocketErrProxy = new(metrics.Counter)
		st.WebSocketErrBalance = new(metrics.Counter)
	}
	if st := bfe_stream.GetStreamState(); st.StreamPanicConn == nil {
		st.StreamPanicConn = new(metrics.Counter)
	}
	bfe_stream.SetServerRule(nil)
	var cases []c07wsCase
	for _, proto := range []string{"ws", "stream"} {
		scripts := func(R int) []c07wsScript {
			var out []c07wsScript
			for _, x := range c07wsScripts(R) {
				if proto == "stream" && (x.hs == "rej" || x.hs == "cls") {
					continue // no handshake phase in the stream proxy
				}
				out = append(out, x)
			}
			return out
		}
		for R := 1; R <= 3; R++ {
			for _, a := range scripts(R) {
				cases = append(cases, c07wsCase{proto: proto, kind: "one", R: R, a: a})
			}
		}
		addPairs := func(R int) {
			ss := scripts(R)
			for _, a := range ss {
				for _, b := range ss {
					cases = append(cases, c07wsCase{proto: proto, kind: "seq", R: R, a: a, b: b})
					if a.established() {
						cases = append(cases, c07wsCase{proto: proto, kind: "ovl", R: R, a: a, b: b})
					}
				}
			}
		}
		addPairs(1)
		if r.Thorough() || r.Replaying() {
			addPairs(2)
		}
	}
	type result struct {
		c      c07wsCase
		viol   *c07viol
		herr   string
		events []string
	}
	var mine []c07wsCase
	for i, c := range cases {
		if r.Replaying() {
			if c.id() == r.ReplayCase() {
				mine = append(mine, c)
			}
			continue
		}
		if r.Mine(i) {
			mine = append(mine, c)
		}
	}
	panics0 := bfe_websocket.GetWebSocketState().WebSocketPanicConn.Get() + bfe_stream.GetStreamState().StreamPanicConn.Get()
	results := make([]result, len(mine))
	sem := make(chan struct{}, 24)
	var wg sync.WaitGroup
	for i, c := range mine {
		wg.Add(1)
		sem <- struct{}{}
		go func(i int, c c07wsCase) {
			defer wg.Done()
			defer func() { <-sem }()
			v, h, ev := c07wsRun(n, c)
			results[i] = result{c, v, h, ev}
		}(i, c)
	}
	wg.Wait()
	for _, res := range results {
		id := res.c.id()
		if !r.Case(id) {
			continue
		}
		if res.herr != "" {
			t.Fatalf("c07ws harness error in %s: %s; history: %s", id, res.herr, strings.Join(res.events, "; "))
		}
		r.Nontrivial(id)
		r.Outcome(res.c.proto + "/" + res.c.a.class())
		if res.c.kind != "one" {
			r.Outcome(res.c.proto + "/" + res.c.b.class())
		}
		r.Add("sum_executions_"+res.c.proto+"_"+res.c.kind, 1)
		if res.viol != nil {
			r.Outcome("VIOLATING")
			r.Violation(res.viol.sig, id, res.viol.detail)
		}
	}
	if p := bfe_websocket.GetWebSocketState().WebSocketPanicConn.Get() + bfe_stream.GetStreamState().StreamPanicConn.Get() - panics0; p != 0 {
		t.Fatalf("c07ws: %d panic(s) recovered by bfe_websocket / bfe_stream serve (not a C07 verdict; see log)", p)
	}
}
