//go:build verif

package bfe_server

// C07 — Active-connection counts match in-flight requests.
//
// Engine E2/E5 (HTTP/1 environment, fault enumeration). A real BfeServer (real route / cluster /
// balancer tables, real ReverseProxy.ServeHTTP -> clusterInvoke -> FinishReq, real callbacks
// table) serves in-memory client connections inside a synctest bubble. One cluster "c1" with
// sub-cluster s1 = {b1, b2} (gslb weight 100) and s2 = {b3} (weight 0: cross-retry target only).
// A forward-phase filter registered through BfeCallbacks.AddFilter(HandleForward) and a scripted
// RoundTripper ask the enumeration (vk.Chooser, depth first, every choice sequence) what to do
// each time bfe calls them:
//   filter verdict   : goon | finish | change backend to the next (thorough: also previous)
//                      backend | (thorough) a verdict the forward point does not honour
//   transport answer : ok | each error kind of h1answer.ErrKind (connect, write, readhdr,
//                      hdrtimeout, broken, other) | the three bfe_fcgi error types
// so exactly the reachable scripts are enumerated, for every retry setting (RetryMax 0..2,
// CrossRetry 0..1, RetryLevel 0..1), availability pattern of {b1,b2,b3}, balance mode WRR/WLC,
// GET and POST, one request, two sequential requests, and two overlapping requests (the first
// parked inside RoundTrip while the second runs to completion on another connection).
//
// Reference model (from the statement): a request is "in flight on backend X" from the moment
// bfe hands it to the transport for X (RoundTrip entered with URL.Host = X) until the request
// has completed (response relayed or connection closed; observed at quiescence). A later
// attempt re-assigns it. want[X] = number of requests in flight on X.
// Oracle: ConnNum() == want for every backend
//   - inside every RoundTrip ("in-roundtrip"), and when the relayed response body is first read
//     ("in-response"): the chosen backend counts this request,
//   - at the quiescent point after every request completed ("after-request"),
//   - when everything finished ("end": all zero);
// and ConnNum() >= 0 whenever the forward filter is called. Nothing is judged about the
// window between balancing and RoundTrip (statement silent about when "assigned" starts).
//
// Module verdicts at the OTHER callback points of the request path ("points" / "pseq"
// families): a test filter is registered on every C07 server at HandleBeforeLocation,
// HandleFoundProduct, HandleAfterLocation (request filters), HandleReadResponse and
// HandleRequestFinish (response filters). In these families every call of every one of them
// asks the enumeration for its verdict, over all verdicts the callback framework accepts at
// that point (request points: goon, close, finish, redirect, response; ReadResponse: goon,
// finish, redirect, thorough + response; RequestFinish: goon, finish, thorough + redirect),
// enumerated TOGETHER with the forward verdicts and transport answers above, for proxied,
// retried, failed and never-proxied requests. Same model and oracle: whatever the verdicts,
// every backend's count equals the in-flight count and is 0 when the request is over. In all
// other families these filters answer GoOn without consuming a choice.
//
// Availability transitions interleaved with in-flight requests ("hc" families): the cluster's
// real health-check conf gets FailNum 1..2 / SuccNum 1..2, request a is parked inside RoundTrip
// and then every sequence of E events is enumerated, each event being one of
//   req        : a further request on a new connection with its own enumerated script; its
//                failures take the real OnFail -> backend.UpdateStatus path and mark the
//                backend down (avail=false, health-check goroutine started) once FailNum
//                consecutive failures are reached,
//   hc-ok:i / hc-fail:i : a health-check result for backend i (enabled while i is down),
//                delivered through the statements of health_check.go:check that follow
//                CheckConnect (fail: ResetSuccNum; ok: AddSuccNum, CheckAvail(SuccNum) ->
//                SetRestart(true), SetAvail(true)); the real check goroutine is started by the
//                real code but leaves at once (backend close channel closed at server
//                build) because its CheckConnect needs a real socket,
//   release    : the parked request continues and finishes.
// The model is not touched by availability events; the oracle is evaluated at the quiescent
// point after every event as well.

import (
	"fmt"
	"io"
	"os"
	"path/filepath"
	"sort"
	"strings"
	"sync"
	"testing"
	"testing/synctest"

	"github.com/bfenetworks/bfe/bfe_balance/backend"
	"github.com/bfenetworks/bfe/bfe_basic"
	"github.com/bfenetworks/bfe/bfe_config/bfe_cluster_conf/cluster_conf"
	"github.com/bfenetworks/bfe/bfe_fcgi"
	"github.com/bfenetworks/bfe/bfe_http"
	"github.com/bfenetworks/bfe/bfe_module"
	"github.com/bfenetworks/bfe/verifkit/vk"
)

// ---- alphabets ------------------------------------------------------------------------------

var c07answersFull = []string{"ok", "connect", "write", "readhdr", "hdrtimeout", "broken", "other", "fcgi-connect", "fcgi-write", "fcgi-readhdr"}
var c07answersRed = []string{"ok", "connect", "readhdr", "other", "fcgi-write"}

var c07verdictsQ = []string{"goon", "finish", "change-next"}
var c07verdictsT = []string{"goon", "finish", "change-next", "change-prev", "other"}

var c07backendNames = []string{"b1", "b2", "b3"}

// callback points other than HandleForward, in the order bfe calls them
type c07point struct {
	id   int
	name string
	resp bool // response filter (req, res) int; else request filter (req) (int, *Response)
}

var c07points = []c07point{
	{bfe_module.HandleBeforeLocation, "beforelocation", false},
	{bfe_module.HandleFoundProduct, "foundproduct", false},
	{bfe_module.HandleAfterLocation, "afterlocation", false},
	{bfe_module.HandleReadResponse, "readresponse", true},
	{bfe_module.HandleRequestFinish, "requestfinish", true},
}

// c07pointVerdicts returns the verdict alphabet of a point at a level (0 = filters silent).
func c07pointVerdicts(level int, name string) []string {
	if level <= 0 {
		return nil
	}
	switch name {
	case "readresponse":
		if level >= 2 {
			return []string{"goon", "finish", "redirect", "response"}
		}
		return []string{"goon", "finish", "redirect"}
	case "requestfinish":
		if level >= 2 {
			return []string{"goon", "finish", "redirect"}
		}
		return []string{"goon", "finish"}
	}
	return []string{"goon", "close", "finish", "redirect", "response"}
}

func c07bfeVerdict(v string) int {
	switch v {
	case "close":
		return bfe_module.BfeHandlerClose
	case "finish":
		return bfe_module.BfeHandlerFinish
	case "redirect":
		return bfe_module.BfeHandlerRedirect
	case "response":
		return bfe_module.BfeHandlerResponse
	}
	return bfe_module.BfeHandlerGoOn
}

func c07spec(m, c, rl int) h1spec {
	return h1spec{Host: "example.org", Clusters: []h1cluster{{
		Name: "c1",
		Sub: map[string][]h1backend{
			"s1": {{Name: "b1", Addr: "10.0.0.1", Port: 80, Weight: 1}, {Name: "b2", Addr: "10.0.0.2", Port: 80, Weight: 1}},
			"s2": {{Name: "b3", Addr: "10.0.0.3", Port: 80, Weight: 1}},
		},
		SubWeight:  map[string]int{"s1": 100, "s2": 0},
		RetryMax:   m,
		CrossRetry: c,
		RetryLevel: rl,
	}}}
}

// ---- families -------------------------------------------------------------------------------

type c07family struct {
	kind     string // one | avail | seq | conc | points | pseq | hc
	m, c, rl int
	mode     string // WRR | WLC
	avail    int    // bit i set = backend c07backendNames[i] available
	method   string
	answers  []string
	verdicts []string
	parkAt   int  // conc: attempt of request a that parks inside RoundTrip
	big      bool // explored by all shards (sub-tree sharding) instead of one
	late     int  // points/pseq: level of the verdict alphabets at the non-forward callback points
	failNum  int  // hc: FailNum of the cluster's health-check conf (0 = the generated 1000)
	succNum  int  // hc: SuccNum
	steps    int  // hc: number of events after request a was sent
}

func (f *c07family) name() string {
	if f.kind == "hc" {
		return fmt.Sprintf("%s/m%dc%dr%d/%s/av%d/%s/A%dV%d/p%d/F%dS%dE%d", f.kind, f.m, f.c, f.rl, f.mode, f.avail, f.method, len(f.answers), len(f.verdicts), f.parkAt, f.failNum, f.succNum, f.steps)
	}
	if f.late > 0 {
		return fmt.Sprintf("%s/m%dc%dr%d/%s/av%d/%s/A%dV%dL%d/p%d", f.kind, f.m, f.c, f.rl, f.mode, f.avail, f.method, len(f.answers), len(f.verdicts), f.late, f.parkAt)
	}
	return fmt.Sprintf("%s/m%dc%dr%d/%s/av%d/%s/A%dV%d/p%d", f.kind, f.m, f.c, f.rl, f.mode, f.avail, f.method, len(f.answers), len(f.verdicts), f.parkAt)
}

func (f *c07family) srvKey() string { return fmt.Sprintf("m%dc%dr%d", f.m, f.c, f.rl) }

var c07retryConfs = [][2]int{{0, 0}, {1, 0}, {0, 1}, {2, 0}, {1, 1}, {2, 1}}

func c07families(thorough bool) []*c07family {
	var fs []*c07family
	V := c07verdictsQ
	if thorough {
		V = c07verdictsT
	}
	// one request, full answer alphabet, everything available
	for _, mc := range c07retryConfs {
		for rl := 0; rl <= 1; rl++ {
			fs = append(fs, &c07family{kind: "one", m: mc[0], c: mc[1], rl: rl, mode: "WRR", avail: 7, method: "GET",
				answers: c07answersFull, verdicts: V, big: rl == 1 && mc[0]+mc[1] >= 2})
		}
		fs = append(fs, &c07family{kind: "one", m: mc[0], c: mc[1], rl: 1, mode: "WRR", avail: 7, method: "POST",
			answers: c07answersFull, verdicts: V})
	}
	// module verdicts at every other callback point of the request path, enumerated together
	// with forward verdicts and transport answers
	lvl := 1
	if thorough {
		lvl = 2
	}
	for _, mode := range []string{"WRR", "WLC"} {
		for _, mc := range c07retryConfs {
			for rl := 0; rl <= 1; rl++ {
				att := mc[0] + mc[1] + 1
				A := c07answersRed
				if att <= 2 || (thorough && att <= 3) {
					A = c07answersFull
				}
				fs = append(fs, &c07family{kind: "points", m: mc[0], c: mc[1], rl: rl, mode: mode, avail: 7, method: "GET",
					answers: A, verdicts: c07verdictsQ, late: lvl, big: rl == 1 && att >= 3 && len(A) == len(c07answersFull)})
			}
		}
		// two sequential requests (counters not reset in between)
		pseq := [][3]int{{0, 0, 0}}
		if thorough {
			pseq = [][3]int{{0, 0, 0}, {0, 0, 1}, {1, 0, 0}, {0, 1, 0}, {1, 0, 1}}
		}
		for _, x := range pseq {
			fs = append(fs, &c07family{kind: "pseq", m: x[0], c: x[1], rl: x[2], mode: mode, avail: 7, method: "GET",
				answers: c07answersRed, verdicts: c07verdictsQ, late: 1, big: x[2] == 1 && x[0]+x[1] >= 1})
		}
	}
	// availability transitions (mark-down by request failures, health-check results) around
	// a request parked inside RoundTrip
	hcA := []string{"ok", "connect", "other"}
	hcV := []string{"goon", "change-next"}
	type hcConf struct{ m, c, steps int }
	hcConfs := []hcConf{{0, 0, 3}, {1, 0, 2}}
	if thorough {
		hcConfs = []hcConf{{0, 0, 4}, {1, 0, 3}, {0, 1, 2}, {1, 1, 2}}
	}
	for _, hc := range hcConfs {
		for _, ma := range [][2]interface{}{{"WRR", 7}, {"WLC", 7}, {"WRR", 5}} {
			for fn := 1; fn <= 2; fn++ {
				for sn := 1; sn <= 2; sn++ {
					if sn == 2 && !(thorough && hc.m+hc.c == 0) {
						continue
					}
					steps := hc.steps
					if thorough && hc.m == 1 && hc.c == 0 && ma[0].(string) == "WLC" {
						steps = 2
					}
					fs = append(fs, &c07family{kind: "hc", m: hc.m, c: hc.c, rl: 0, mode: ma[0].(string), avail: ma[1].(int), method: "GET",
						answers: hcA, verdicts: hcV, parkAt: 1, failNum: fn, succNum: sn, steps: steps, big: thorough && steps >= 3})
				}
			}
		}
	}
	// availability patterns x balance mode
	for av := 0; av < 8; av++ {
		for _, mode := range []string{"WRR", "WLC"} {
			for _, mc := range c07retryConfs {
				for rl := 0; rl <= 1; rl++ {
					A := c07answersRed
					if thorough || mc[0]+mc[1] <= 1 {
						A = c07answersFull
					}
					fs = append(fs, &c07family{kind: "avail", m: mc[0], c: mc[1], rl: rl, mode: mode, avail: av, method: "GET",
						answers: A, verdicts: c07verdictsQ, big: rl == 1 && mc[0]+mc[1] >= 3 && len(A) == len(c07answersFull)})
				}
			}
		}
	}
	// two sequential / two overlapping requests
	seqConfs := [][2]int{{0, 0}, {1, 0}, {0, 1}, {1, 1}}
	if thorough {
		seqConfs = append(seqConfs, [2]int{2, 0}, [2]int{2, 1})
	}
	for _, mode := range []string{"WRR", "WLC"} {
		for _, mc := range seqConfs {
			for rl := 0; rl <= 1; rl++ {
				att := mc[0] + mc[1] + 1
				if !thorough && att == 3 && rl == 1 {
					continue // 431^2 executions per family: thorough only
				}
				if att == 4 && rl == 1 {
					continue // 2591^2 executions per family: beyond the thorough budget
				}
				A := c07answersRed
				if thorough && att <= 2 {
					A = c07answersFull
				}
				big := rl == 1 && att >= 2 && (att >= 3 || len(A) == len(c07answersFull))
				fs = append(fs, &c07family{kind: "seq", m: mc[0], c: mc[1], rl: rl, mode: mode, avail: 7, method: "GET",
					answers: A, verdicts: c07verdictsQ, big: big})
				fs = append(fs, &c07family{kind: "conc", m: mc[0], c: mc[1], rl: rl, mode: mode, avail: 7, method: "GET",
					answers: A, verdicts: c07verdictsQ, parkAt: 1, big: big})
				if thorough && att >= 2 && !(att >= 3 && rl == 1) {
					fs = append(fs, &c07family{kind: "conc", m: mc[0], c: mc[1], rl: rl, mode: mode, avail: 7, method: "GET",
						answers: A, verdicts: c07verdictsQ, parkAt: 2, big: big})
				}
			}
		}
	}
	return fs
}

// ---- one execution --------------------------------------------------------------------------

type c07req struct {
	tag       string
	filters   int
	attempts  int
	finished  bool // a forward filter answered Finish
	changed   bool // a forward filter replaced the backend
	answers   []string
	completed bool
	late      string // last non-goon verdict at a non-forward callback point: "<point>-<verdict>"
}

// class of a request = the input feature that most specifically characterises its history
func (q *c07req) class() string {
	if q == nil {
		return "none"
	}
	if q.finished { // always the last event of a request
		return "forward-finish"
	}
	if q.late != "" {
		return q.late
	}
	if n := len(q.answers); n > 0 && q.answers[n-1] == "fcgi-write" {
		return "fcgi-write-error"
	}
	if q.changed {
		return "filter-changed-backend"
	}
	if q.attempts >= 2 || q.filters >= 2 {
		return "retried"
	}
	return "plain"
}

type c07viol struct{ sig, detail string }

type c07conn struct {
	hc     *h1conn
	served chan struct{}
	rd     int
}

type c07world struct {
	t          *testing.T
	srv        *BfeServer
	fam        *c07family
	env        *h1env
	mu         sync.Mutex
	ch         *vk.Chooser
	backs      map[string]*backend.BfeBackend // by name
	byAddr     map[string]string              // addr:port -> name
	reqs       map[string]*c07req
	assign     map[string]string // tag -> backend name the request is in flight on
	events     []string
	viol       *c07viol
	parkAt     map[string]int
	parked     string // tag parked inside RoundTrip
	release    chan struct{}
	conns      []*c07conn
	panics0    int64 // value of ProxyState.PanicClientConnServe when the execution started
	availPrev  map[string]bool
	markdowns  int // backends marked down by request failures (real OnFail path)
	recoveries int // backends brought back by a delivered health-check result
	harnessErr string
}

// the world the registered forward filter talks to (one execution at a time per process)
var c07cur *c07world

func c07tag(path string) string { return strings.TrimPrefix(path, "/") }

func (w *c07world) req(tag string) *c07req {
	q := w.reqs[tag]
	if q == nil {
		q = &c07req{tag: tag}
		w.reqs[tag] = q
	}
	return q
}

func (w *c07world) counts() map[string]int {
	out := map[string]int{}
	for n, b := range w.backs {
		out[n] = b.ConnNum()
	}
	return out
}

func c07fmtCounts(m map[string]int) string {
	var s []string
	for _, n := range c07backendNames {
		s = append(s, fmt.Sprintf("%s=%d", n, m[n]))
	}
	return strings.Join(s, " ")
}

// check compares the real counters with the model; caller holds w.mu.
func (w *c07world) check(point string, q *c07req) {
	if w.viol != nil {
		return
	}
	got := w.counts()
	want := map[string]int{}
	for _, b := range w.assign {
		want[b]++
	}
	for _, n := range c07backendNames {
		if got[n] == want[n] {
			continue
		}
		kind := "high"
		if got[n] < want[n] {
			kind = "low"
		}
		neg := ""
		if got[n] < 0 {
			neg = " (NEGATIVE)"
		}
		w.viol = &c07viol{
			sig: point + ":" + q.class() + ":" + kind,
			detail: fmt.Sprintf("at %s of request %s: backend %s ConnNum=%d%s, in-flight requests on it=%d; counters [%s] model [%s]; history: %s",
				point, q.tag, n, got[n], neg, want[n], c07fmtCounts(got), c07fmtCounts(want), strings.Join(w.events, "; ")),
		}
		return
	}
}

func (w *c07world) checkNonNegative(point string, q *c07req) {
	if w.viol != nil {
		return
	}
	got := w.counts()
	for _, n := range c07backendNames {
		if got[n] < 0 {
			w.viol = &c07viol{sig: point + ":" + q.class() + ":negative",
				detail: fmt.Sprintf("at %s of request %s: backend %s ConnNum=%d; history: %s", point, q.tag, n, got[n], strings.Join(w.events, "; "))}
			return
		}
	}
}

func (w *c07world) choose(alpha []string) string {
	if w.ch.Skipped {
		return alpha[0]
	}
	i := w.ch.Choose(len(alpha))
	return alpha[i]
}

// c07forwardFilter is registered at HandleForward on every C07 server.
func c07forwardFilter(req *bfe_basic.Request) int {
	w := c07cur
	if w == nil || req == nil || req.HttpRequest == nil || req.Trans.Backend == nil {
		return bfe_module.BfeHandlerGoOn
	}
	w.mu.Lock()
	defer w.mu.Unlock()
	q := w.req(c07tag(req.HttpRequest.URL.Path))
	q.filters++
	cur := req.Trans.Backend.Name
	w.checkNonNegative("in-forward-filter", q)
	v := w.choose(w.fam.verdicts)
	w.events = append(w.events, fmt.Sprintf("%s: forward filter #%d sees balanced backend %s, answers %s", q.tag, q.filters, cur, v))
	switch v {
	case "finish":
		q.finished = true
		return bfe_module.BfeHandlerFinish
	case "change-next", "change-prev":
		idx := sort.SearchStrings(c07backendNames, cur)
		step := 1
		if v == "change-prev" {
			step = 2
		}
		target := c07backendNames[(idx+step)%len(c07backendNames)]
		req.SetRequestTransport(w.backs[target], req.Trans.Transport)
		q.changed = true
		w.events = append(w.events, fmt.Sprintf("%s: filter sets backend %s", q.tag, target))
	case "other":
		return bfe_module.BfeHandlerRedirect // not honoured at the forward point
	}
	return bfe_module.BfeHandlerGoOn
}

// c07pointFilter builds the filter registered at a non-forward callback point.
func c07pointFilter(pt c07point) interface{} {
	decide := func(req *bfe_basic.Request) (string, *c07world) {
		w := c07cur
		if w == nil || req == nil || req.HttpRequest == nil || req.HttpRequest.URL == nil {
			return "goon", nil
		}
		alpha := c07pointVerdicts(w.fam.late, pt.name)
		if len(alpha) == 0 {
			return "goon", nil // silent in this family: no choice consumed
		}
		w.mu.Lock()
		defer w.mu.Unlock()
		q := w.req(c07tag(req.HttpRequest.URL.Path))
		w.checkNonNegative("in-"+pt.name+"-filter", q)
		v := w.choose(alpha)
		w.events = append(w.events, fmt.Sprintf("%s: %s filter answers %s", q.tag, pt.name, v))
		if v != "goon" {
			q.late = pt.name + "-" + v
		}
		if v == "redirect" {
			req.Redirect.Url = "http://r.example/moved"
			req.Redirect.Code = 302
			req.Redirect.Header = nil
		}
		return v, w
	}
	if pt.resp {
		return func(req *bfe_basic.Request, res *bfe_http.Response) int {
			v, _ := decide(req)
			return c07bfeVerdict(v)
		}
	}
	return func(req *bfe_basic.Request) (int, *bfe_http.Response) {
		v, _ := decide(req)
		if v == "response" {
			res := new(bfe_http.Response)
			res.StatusCode = 403
			res.Header = make(bfe_http.Header)
			res.Header.Set("Content-Length", "4")
			res.Body = io.NopCloser(strings.NewReader("deny"))
			return c07bfeVerdict(v), res
		}
		return c07bfeVerdict(v), nil
	}
}

// c07body is the backend response body; the first Read samples the counters ("in-response").
type c07body struct {
	w    *c07world
	q    *c07req
	rd   io.Reader
	done bool
}

func (b *c07body) Read(p []byte) (int, error) {
	if !b.done {
		b.done = true
		b.w.mu.Lock()
		b.w.check("in-response", b.q)
		b.w.mu.Unlock()
	}
	return b.rd.Read(p)
}
func (b *c07body) Close() error { return nil }

type c07transport struct {
	w     *c07world
	inner *h1transport
}

func (t *c07transport) RoundTrip(req *bfe_http.Request) (*bfe_http.Response, error) {
	w := t.w
	w.mu.Lock()
	q := w.req(c07tag(req.URL.Path))
	q.attempts++
	name := w.byAddr[req.URL.Host]
	if name == "" {
		w.harnessErr = "RoundTrip to unknown backend address " + req.URL.Host
	}
	w.assign[q.tag] = name
	kind := w.choose(w.fam.answers)
	q.answers = append(q.answers, kind)
	w.events = append(w.events, fmt.Sprintf("%s: RoundTrip #%d on %s answers %s", q.tag, q.attempts, name, kind))
	w.check("in-roundtrip", q)
	park := w.parkAt[q.tag] == q.attempts && w.viol == nil
	if park {
		w.parked = q.tag
		w.events = append(w.events, fmt.Sprintf("%s: parked inside RoundTrip", q.tag))
	}
	w.mu.Unlock()
	if park {
		<-w.release
		w.mu.Lock()
		w.parked = ""
		w.events = append(w.events, fmt.Sprintf("%s: released", q.tag))
		w.mu.Unlock()
	}
	switch kind {
	case "fcgi-connect":
		return nil, bfe_fcgi.ConnectError{Addr: req.URL.Host, Err: fmt.Errorf("verif: fcgi dial failed")}
	case "fcgi-write":
		return nil, bfe_fcgi.WriteRequestError{Err: fmt.Errorf("verif: fcgi write failed")}
	case "fcgi-readhdr":
		if req.Body != nil {
			io.Copy(io.Discard, req.Body)
		}
		return nil, bfe_fcgi.ReadRespHeaderError{Err: fmt.Errorf("verif: fcgi read header failed")}
	}
	ans := h1answer{ErrKind: kind}
	if kind == "ok" {
		ans.ErrKind = ""
		ans.Resp = func(r *bfe_http.Request) *bfe_http.Response {
			res := h1resp(r, 200, map[string]string{"Content-Length": "2"}, "ok")
			res.Body = &c07body{w: w, q: q, rd: strings.NewReader("ok")}
			return res
		}
	}
	w.env.mu.Lock()
	w.env.answers = append(w.env.answers, ans)
	w.env.mu.Unlock()
	return t.inner.RoundTrip(req)
}

func (w *c07world) open() *c07conn {
	c := &c07conn{hc: newH1conn(), served: make(chan struct{})}
	sc, err := newConn(c.hc, w.srv)
	if err != nil {
		w.t.Fatalf("c07: newConn: %v", err)
	}
	go func() {
		defer close(c.served)
		sc.serve()
	}()
	synctest.Wait()
	// see h1run: a waiter inside the bubble lets the server's connWaitGroup leave the bubble
	go w.srv.connWaitGroup.Wait()
	synctest.Wait()
	w.conns = append(w.conns, c)
	return c
}

func (c *c07conn) send(b string) {
	c.hc.mu.Lock()
	c.hc.in = append(c.hc.in, b...)
	c.hc.cond.Broadcast()
	c.hc.mu.Unlock()
	synctest.Wait()
}

func (c *c07conn) newOut() []byte {
	c.hc.mu.Lock()
	defer c.hc.mu.Unlock()
	b := append([]byte(nil), c.hc.out[c.rd:]...)
	c.rd = len(c.hc.out)
	return b
}

func (c *c07conn) isClosed() bool {
	select {
	case <-c.served:
		return true
	default:
	}
	c.hc.mu.Lock()
	defer c.hc.mu.Unlock()
	return c.hc.closed || c.hc.closedW
}

func (w *c07world) requestBytes(tag string) string {
	if w.fam.method == "POST" {
		return "POST /" + tag + " HTTP/1.1\r\nHost: example.org\r\nContent-Length: 5\r\n\r\nhello"
	}
	return "GET /" + tag + " HTTP/1.1\r\nHost: example.org\r\n\r\n"
}

// completed is called at quiescence when request tag is over; returns the outcome class.
func (w *c07world) completed(tag string, c *c07conn) string {
	out := c.newOut()
	w.mu.Lock()
	defer w.mu.Unlock()
	q := w.req(tag)
	q.completed = true
	delete(w.assign, tag)
	status := "no-response"
	if len(out) >= 12 && strings.HasPrefix(string(out), "HTTP/1.") {
		status = string(out[9:12])
	}
	if status == "no-response" && !c.isClosed() {
		w.harnessErr = fmt.Sprintf("request %s neither answered nor connection closed at quiescence (out=%q)", tag, out)
	}
	np := w.srv.serverStatus.ProxyState.PanicClientConnServe.Get() - w.panics0
	w.events = append(w.events, fmt.Sprintf("%s: completed (%s, conn closed=%v, panics recovered by conn.serve so far=%d)", tag, status, c.isClosed(), np))
	for _, n := range c07backendNames {
		now := w.backs[n].Avail()
		if w.availPrev != nil && w.availPrev[n] && !now {
			w.markdowns++
			w.events = append(w.events, fmt.Sprintf("backend %s marked down by request failures (FailNum %d reached)", n, w.fam.failNum))
		}
		if w.availPrev != nil {
			w.availPrev[n] = now
		}
	}
	w.check("after-request", q)
	oc := status
	switch {
	case q.finished:
		oc += "/forward-finish"
	case q.attempts == 0:
		oc += "/no-backend"
	case q.attempts > 1:
		oc += "/retried"
	}
	if status == "no-response" {
		oc += "/conn-closed"
	}
	if q.late != "" {
		oc += "/" + q.late
	}
	if np > 0 {
		oc += "/panic"
	}
	return oc
}

type c07result struct {
	viol                  *c07viol
	outcomes              []string
	attempts              int
	overlap               bool // two requests were in flight at the same time at some point
	err                   string
	events                []string
	markdowns, recoveries int
}

// c07resetServer puts the shared server object into the family's initial state.
func c07resetServer(srv *BfeServer, f *c07family) (map[string]*backend.BfeBackend, map[string]string) {
	backs := map[string]*backend.BfeBackend{}
	byAddr := map[string]string{}
	for _, b := range srv.balTable.VerifBackends() {
		backs[b.Name] = b
		byAddr[b.GetAddrInfo()] = b.Name
	}
	for i, n := range c07backendNames {
		b := backs[n]
		if b == nil {
			panic("c07: backend " + n + " missing")
		}
		b.SetAvail(true) // also resets failNum
		b.ResetFailNum()
		b.ResetSuccNum()
		b.SetRestart(false)
		for b.ConnNum() > 0 {
			b.DecConnNum()
		}
		for b.ConnNum() < 0 {
			b.IncConnNum()
		}
		b.SetAvail(f.avail&(1<<uint(i)) != 0)
	}
	bal, err := srv.balTable.Lookup("c1")
	if err != nil {
		panic(err)
	}
	bal.C07VerifResetRR()
	// the health-check conf of the real cluster object, reached through the real fetcher
	backend.SetCheckConfFetcher(srv.GetCheckConf)
	cc := srv.GetCheckConf("c1")
	if cc == nil || cc.FailNum == nil || cc.SuccNum == nil {
		panic("c07: no health-check conf for c1")
	}
	*cc.FailNum, *cc.SuccNum = 1000, 1
	if f.failNum > 0 {
		*cc.FailNum, *cc.SuccNum = f.failNum, f.succNum
	}
	if f.mode == "WLC" {
		bal.BalanceMode = cluster_conf.BalanceModeWlc
	} else {
		bal.BalanceMode = cluster_conf.BalanceModeWrr
	}
	return backs, byAddr
}

func c07exec(t *testing.T, srv *BfeServer, f *c07family, ch *vk.Chooser) c07result {
	backs, byAddr := c07resetServer(srv, f)
	w := &c07world{srv: srv, fam: f, ch: ch, backs: backs, byAddr: byAddr,
		reqs: map[string]*c07req{}, assign: map[string]string{}, parkAt: map[string]int{}}
	var res c07result
	w.panics0 = srv.serverStatus.ProxyState.PanicClientConnServe.Get()
	c07cur = w
	defer func() { c07cur = nil }()
	synctest.Test(t, func(t *testing.T) {
		w.t = t
		w.env = &h1env{t: t, srv: srv, conn: newH1conn(), served: make(chan struct{})}
		w.release = make(chan struct{})
		released := false
		srv.ReverseProxy.tsMu.Lock()
		for name := range srv.ReverseProxy.transports {
			srv.ReverseProxy.transports[name] = &c07transport{w: w, inner: &h1transport{cluster: name, env: w.env}}
		}
		srv.ReverseProxy.tsMu.Unlock()

		stop := func() bool {
			w.mu.Lock()
			defer w.mu.Unlock()
			return w.viol != nil || w.harnessErr != "" || ch.Skipped
		}
		switch f.kind {
		case "one", "avail", "points":
			c := w.open()
			c.send(w.requestBytes("a"))
			res.outcomes = append(res.outcomes, w.completed("a", c))
		case "seq", "pseq":
			c := w.open()
			c.send(w.requestBytes("a"))
			res.outcomes = append(res.outcomes, w.completed("a", c))
			if !stop() {
				if c.isClosed() {
					c = w.open()
				}
				c.send(w.requestBytes("b"))
				res.outcomes = append(res.outcomes, w.completed("b", c))
			}
		case "hc":
			w.availPrev = map[string]bool{}
			for _, n := range c07backendNames {
				w.availPrev[n] = w.backs[n].Avail()
			}
			w.parkAt["a"] = f.parkAt
			ca := w.open()
			ca.send(w.requestBytes("a"))
			w.mu.Lock()
			parked := w.parked == "a"
			w.mu.Unlock()
			if !parked {
				res.outcomes = append(res.outcomes, w.completed("a", ca))
			}
			res.overlap = parked
			tags := []string{"b", "c", "d", "e"}
			nreq := 0
			for step := 0; step < f.steps && !stop(); step++ {
				evs := []string{"req"}
				for _, n := range c07backendNames {
					if !w.backs[n].Avail() {
						evs = append(evs, "hc-ok:"+n, "hc-fail:"+n)
					}
				}
				if parked && !released {
					evs = append(evs, "release")
				}
				w.mu.Lock()
				ev := w.choose(evs)
				w.mu.Unlock()
				switch {
				case ev == "req":
					tag := tags[nreq]
					nreq++
					c := w.open()
					c.send(w.requestBytes(tag))
					res.outcomes = append(res.outcomes, w.completed(tag, c))
				case ev == "release":
					close(w.release)
					released = true
					synctest.Wait()
					res.outcomes = append(res.outcomes, w.completed("a", ca))
				default:
					n := ev[strings.Index(ev, ":")+1:]
					b := w.backs[n]
					kind := "backend-check-failed"
					// what health_check.go:check does with the result of CheckConnect
					if strings.HasPrefix(ev, "hc-ok") {
						kind = "backend-check-ok"
						b.AddSuccNum()
						if b.CheckAvail(f.succNum) {
							b.SetRestart(true)
							b.SetAvail(true)
							kind = "backend-recovered"
						}
					} else {
						b.ResetSuccNum()
					}
					synctest.Wait()
					w.mu.Lock()
					w.events = append(w.events, fmt.Sprintf("health check of %s: %s -> %s (avail=%v)", n, ev[:strings.Index(ev, ":")], kind, b.Avail()))
					if kind == "backend-recovered" {
						w.recoveries++
					}
					w.availPrev[n] = b.Avail()
					w.check("after-health-event", &c07req{tag: "-", late: kind})
					w.mu.Unlock()
				}
			}
			if parked && !released && !stop() {
				close(w.release)
				released = true
				synctest.Wait()
				res.outcomes = append(res.outcomes, w.completed("a", ca))
			}
		case "conc":
			w.parkAt["a"] = f.parkAt
			ca := w.open()
			ca.send(w.requestBytes("a"))
			w.mu.Lock()
			parked := w.parked == "a"
			w.mu.Unlock()
			if !parked {
				res.outcomes = append(res.outcomes, w.completed("a", ca))
			}
			if !stop() {
				res.overlap = parked
				cb := w.open()
				cb.send(w.requestBytes("b"))
				res.outcomes = append(res.outcomes, w.completed("b", cb))
			}
			if parked {
				close(w.release)
				released = true
				synctest.Wait()
				res.outcomes = append(res.outcomes, w.completed("a", ca))
			}
		}
		if !released {
			close(w.release)
		}
		// teardown: clients go away; every serve must return
		for _, c := range w.conns {
			c.hc.mu.Lock()
			c.hc.inEOF = true
			c.hc.cond.Broadcast()
			c.hc.mu.Unlock()
		}
		synctest.Wait()
		for _, c := range w.conns {
			c.hc.Close()
		}
		synctest.Wait()
		for _, c := range w.conns {
			<-c.served
		}
		w.mu.Lock()
		if len(w.assign) != 0 && w.harnessErr == "" && w.viol == nil && !ch.Skipped {
			w.harnessErr = fmt.Sprintf("model still has in-flight requests at the end: %v", w.assign)
		}
		var last *c07req
		for _, tag := range []string{"e", "d", "c", "b", "a"} {
			if q := w.reqs[tag]; q != nil {
				last = q
				break
			}
		}
		if last == nil {
			last = &c07req{tag: "-"}
		}
		w.events = append(w.events, "all connections closed")
		w.check("end", last)
		w.mu.Unlock()
	})
	res.viol = w.viol
	res.err = w.harnessErr
	res.events = w.events
	res.markdowns, res.recoveries = w.markdowns, w.recoveries
	for _, q := range w.reqs {
		res.attempts += q.attempts
	}
	return res
}

// ---- entry point ----------------------------------------------------------------------------

const c07shardDepth = 4

func TestVerifC07(t *testing.T) {
	r := vk.Start(t, "C07")
	defer r.Finish()
	dir := os.Getenv("VERIF_SCRATCH")
	if dir == "" {
		dir = t.TempDir()
	}
	var fams []*c07family
	if r.Replaying() {
		seen := map[string]bool{}
		for _, th := range []bool{false, true} {
			for _, f := range c07families(th) {
				if !seen[f.name()] {
					seen[f.name()] = true
					fams = append(fams, f)
				}
			}
		}
	} else {
		fams = c07families(r.Thorough())
	}
	servers := map[string]*BfeServer{}
	getServer := func(f *c07family) *BfeServer {
		k := f.srvKey()
		if s := servers[k]; s != nil {
			return s
		}
		s := h1newServer(filepath.Join(dir, k), c07spec(f.m, f.c, f.rl))
		if err := s.CallBacks.AddFilter(bfe_module.HandleForward, c07forwardFilter); err != nil {
			t.Fatalf("c07: AddFilter: %v", err)
		}
		for _, pt := range c07points {
			if err := s.CallBacks.AddFilter(pt.id, c07pointFilter(pt)); err != nil {
				t.Fatalf("c07: AddFilter(%s): %v", pt.name, err)
			}
		}
		// the health-check goroutine started by the real backend.UpdateStatus must not touch a
		// real socket: a closed close-channel makes it leave at its first loop test
		for _, b := range s.balTable.VerifBackends() {
			b.Close()
		}
		servers[k] = s
		return s
	}
	r.Set("bounds", fmt.Sprintf("families=%d (one: 6 retry settings x RetryLevel 0..1 x GET + POST, %d answers x %d verdicts; avail: 8 patterns x WRR/WLC x 12 settings; seq/conc: 2 requests; points/pseq: verdict alphabets at 5 more callback points); max attempts per request 4",
		len(fams), len(c07answersFull), len(c07verdictsQ)+2*r.Pick(0, 1)))
	// websocket sessions share the counter: real-time loopback executions, see c07ws_verif_test.go
	c07wsFamilies(t, r)
	complete := true
	var samples int
	smallIdx := 0
	for _, f := range fams {
		f := f
		name := f.name()
		depth := c07shardDepth
		if !f.big {
			depth = 0 // whole family belongs to one shard
			smallIdx++
			if !r.Replaying() && !r.Mine(smallIdx) {
				continue
			}
		}
		if r.Replaying() && !strings.HasPrefix(r.ReplayCase(), name+"|trace:") {
			continue
		}
		if !complete {
			break
		}
		srv := getServer(f)
		var famExecs, famViol int64
		n := vk.ExploreSharded(r, name, depth, -1, func(ch *vk.Chooser) {
			res := c07exec(t, srv, f, ch)
			if f.big {
				for len(ch.Trace()) < c07shardDepth && !ch.Skipped {
					ch.ChooseFree(1) // pad short executions so that exactly one shard owns them
				}
			}
			if ch.Skipped {
				return
			}
			id := ch.CaseID(name)
			if !r.Case(id) {
				return
			}
			famExecs++
			if res.err != "" {
				t.Fatalf("c07 harness error in %s: %s; history: %s", id, res.err, strings.Join(res.events, "; "))
			}
			r.Transitions(int64(len(res.events)))
			if res.attempts > 0 {
				r.Nontrivial(id)
			}
			for _, oc := range res.outcomes {
				r.Outcome(oc)
			}
			if res.overlap {
				r.Add("sum_overlapping_executions", 1)
			}
			r.Add("sum_roundtrip_attempts", int64(res.attempts))
			if res.markdowns > 0 {
				r.Add("sum_executions_with_backend_marked_down_by_failures", 1)
			}
			if res.recoveries > 0 {
				r.Add("sum_executions_with_backend_recovered_by_health_check", 1)
				if res.overlap {
					r.Add("sum_executions_with_recovery_while_request_parked_or_after", 1)
				}
			}
			if res.viol != nil {
				famViol++
				r.Outcome("VIOLATING")
				r.Violation(res.viol.sig, id, name+": "+res.viol.detail)
			} else if samples < 6 && res.attempts >= 2 && famExecs%97 == 3 {
				samples++
				r.Sample(map[string]interface{}{"case": id, "history": res.events, "outcomes": res.outcomes})
			}
		}, func() bool {
			if r.Expired("c07 " + name) {
				complete = false
				return true
			}
			return false
		})
		r.Traces(n)
		r.States(n)
		r.Add("sum_families_run", 1)
		r.Add("sum_executions_"+f.kind, n)
	}
}
