//go:build verif

package bfe_server

// C08 — Retries are safe and bounded.
//
// Engine E5 (fault enumeration on the HTTP/1 environment). A real BfeServer (real route / cluster
// / gslb / balancer tables, real conn.serve -> ReverseProxy.ServeHTTP -> clusterInvoke ->
// BalanceGslb.Balance) serves one in-memory client connection per execution inside a synctest
// bubble. Every cluster's transport is a scripted RoundTripper that asks the enumeration
// (vk.Chooser, depth first, every choice sequence) what the attempt's fate is, each time bfe
// calls it; so exactly the reachable sequences of per-attempt faults are enumerated, up to the
// attempt cap, for every family:
//
//   gslb layout x initial availability x hash key / clock offset   (c08layouts)
//   x RetryMax 0..2 x CrossRetry 0..1 (thorough: also RetryMax 0..1 x CrossRetry 2) x RetryLevel 0..1
//   x method {GET, HEAD, POST} x body {none, Content-Length: 0, Content-Length body, chunked
//     body, empty chunked body, Content-Length body with Expect: 100-continue}
//
// plus the same oracle after configuration histories (start-up followed by every short sequence
// of real server-data-conf / gslb-data-conf reloads on a fresh server; see c08hist below).
//
// Per-attempt fates: response 200 / 500, ConnectError, ConnectError that also takes every
// backend of that sub-cluster out of service, WriteRequestError before any byte / after part of
// the body / after the whole request, ReadRespHeaderError, RespHeaderTimeoutError,
// TransportBrokenError, an unclassified error, and the bfe_fcgi error types.
//
// Reference model = the property statement, evaluated on the recorded list of RoundTrip calls:
//   R1 attempt k+1 exists only if attempt k failed while connecting, or attempt k failed and the
//      request is a GET without body and RetryLevel = 1 (retry GET);
//   R2 number of attempts <= 1 + RetryMax + CrossRetry;
//   R3 no attempt goes to a backend of the GSLB_BLACKHOLE sub-cluster; an attempt beyond the
//      1+RetryMax in-sub-cluster budget (necessarily a cross-sub-cluster attempt) does not go
//      to the request's primary sub-cluster;
//   R4 once an attempt has taken at least one byte of the request body, there is no later
//      attempt.
// Nothing else is judged (not: whether bfe retries when it may, which backend inside a
// sub-cluster, how many of the attempts are cross attempts, what the client sees).

import (
	"bytes"
	"errors"
	"fmt"
	"io"
	"net"
	"os"
	"path/filepath"
	"sort"
	"strconv"
	"strings"
	"sync"
	"syscall"
	"testing"
	"time"

	"github.com/bfenetworks/bfe/bfe_balance/backend"
	"github.com/bfenetworks/bfe/bfe_config/bfe_conf"
	"github.com/bfenetworks/bfe/bfe_fcgi"
	"github.com/bfenetworks/bfe/bfe_http"
	"github.com/bfenetworks/bfe/verifkit/vk"
)

const c08blackhole = "GSLB_BLACKHOLE"

// ---- gslb layouts ---------------------------------------------------------------------------

type c08bk struct{ sub, name string }

type c08layout struct {
	name    string
	subs    map[string][]h1backend
	weights map[string]int
	primary string     // the only sub-cluster with weight > 0; "" = decided by the hash key
	downs   [][]string // initial sets of unavailable backends
	downsQ  int        // the first downsQ sets are used in the quick tier
	byAddr  map[string]c08bk
}

func c08b(name string, last int) h1backend {
	return h1backend{Name: name, Addr: fmt.Sprintf("10.0.0.%d", last), Port: 80, Weight: 1}
}

func c08layouts() []*c08layout {
	trap := []h1backend{c08b("trap", 9)}
	ls := []*c08layout{
		// one weighted sub-cluster with two backends, one weight-0 sub-cluster (cross target only)
		{name: "L1", primary: "s1",
			subs:    map[string][]h1backend{"s1": {c08b("b1", 1), c08b("b2", 2)}, "s2": {c08b("b3", 3)}, c08blackhole: trap},
			weights: map[string]int{"s1": 100, "s2": 0, c08blackhole: 0},
			downs:   [][]string{{}, {"b1", "b2"}, {"b3"}, {"b1"}, {"b1", "b2", "b3"}}, downsQ: 3},
		// two weighted sub-clusters: the primary is chosen by the hash of the session key
		{name: "L2", primary: "",
			subs:    map[string][]h1backend{"s1": {c08b("b1", 1)}, "s2": {c08b("b2", 2)}, c08blackhole: trap},
			weights: map[string]int{"s1": 50, "s2": 50, c08blackhole: 0},
			downs:   [][]string{{}, {"b1"}, {"b2"}}, downsQ: 2},
		// one weighted sub-cluster, two cross targets (randomSelectExclude has a real choice)
		{name: "L3", primary: "s1",
			subs:    map[string][]h1backend{"s1": {c08b("b1", 1)}, "s2": {c08b("b2", 2)}, "s3": {c08b("b3", 3)}, c08blackhole: trap},
			weights: map[string]int{"s1": 100, "s2": 0, "s3": 0, c08blackhole: 0},
			downs:   [][]string{{}, {"b2"}, {"b1"}, {"b2", "b3"}}, downsQ: 2},
		// the blackhole carries traffic weight: requests hashed to it must never reach a backend
		{name: "L4", primary: "",
			subs:    map[string][]h1backend{"s1": {c08b("b1", 1)}, "s2": {c08b("b2", 2)}, c08blackhole: trap},
			weights: map[string]int{"s1": 50, "s2": 0, c08blackhole: 50},
			downs:   [][]string{{}, {"b1"}}, downsQ: 2},
	}
	for _, l := range ls {
		l.byAddr = map[string]c08bk{}
		for sub, bks := range l.subs {
			for _, b := range bks {
				l.byAddr[fmt.Sprintf("%s:%d", b.Addr, b.Port)] = c08bk{sub: sub, name: b.Name}
			}
		}
	}
	return ls
}

var c08retryConfsQ = [][2]int{{0, 0}, {1, 0}, {0, 1}, {2, 0}, {1, 1}, {2, 1}}
var c08retryConfsT = [][2]int{{0, 0}, {1, 0}, {0, 1}, {2, 0}, {1, 1}, {2, 1}, {0, 2}, {1, 2}}

func c08clusterName(lay string, m, c, rl int) string {
	return fmt.Sprintf("%sm%dc%dr%d", lay, m, c, rl)
}

// c08spec: one server carries every (layout, RetryMax, CrossRetry, RetryLevel) as its own
// cluster, routed by path prefix.
func c08spec(lays []*c08layout) h1spec {
	spec := h1spec{Host: "example.org"}
	for _, l := range lays {
		for _, mc := range c08retryConfsT {
			for rl := 0; rl <= 1; rl++ {
				name := c08clusterName(l.name, mc[0], mc[1], rl)
				spec.Clusters = append(spec.Clusters, h1cluster{
					Name: name, Sub: l.subs, SubWeight: l.weights,
					RetryMax: mc[0], CrossRetry: mc[1], RetryLevel: rl,
					Cond: fmt.Sprintf("req_path_prefix_in(\"/%s/\", false)", name),
				})
			}
		}
	}
	spec.Clusters = append(spec.Clusters, h1cluster{Name: "dflt",
		Sub: map[string][]h1backend{"s1": {c08b("d1", 99)}}, SubWeight: map[string]int{"s1": 100}})
	return spec
}

// ---- alphabets ------------------------------------------------------------------------------

var c08kindsQ = []string{"ok", "connect", "connect-down", "write0", "write", "writepart", "readhdr", "hdrtimeout", "broken", "other"}
var c08kindsT = []string{"ok", "ok500", "connect", "connect-down", "fcgi-connect", "write0", "write", "writepart", "readhdr", "hdrtimeout", "broken", "other", "fcgi-readhdr", "fcgi-write"}

func c08isConnect(kind string) bool {
	return kind == "connect" || kind == "connect-down" || kind == "fcgi-connect" || kind == "dial-refused"
}
func c08isResponse(kind string) bool {
	return kind == "ok" || kind == "ok500" || kind == "answer" || kind == "answer-close"
}

// class of the answer for signatures / counters
func c08kindClass(kind string) string {
	switch kind {
	case "ok", "ok500", "answer", "answer-close":
		return "response"
	case "connect", "connect-down", "fcgi-connect", "dial-refused":
		return "connect-error"
	case "write0", "write", "writepart", "write-fails-at-once", "write-fails-in-body":
		return "write-error"
	case "readhdr", "fcgi-readhdr", "eof-after-request", "reset-after-request", "partial-header-eof":
		return "read-header-error"
	case "hdrtimeout", "silent":
		return "header-timeout"
	case "broken":
		return "transport-broken"
	case "fcgi-write":
		return "fcgi-write-error"
	}
	return "other-error"
}

var c08methods = []string{"GET", "HEAD", "POST"}
var c08bodiesQ = []string{"none", "cl", "chunked"}
var c08bodiesT = []string{"none", "cl0", "cl", "chunked", "chunked0", "clexpect"}

// "nobody" = no entity body at all; "body" = body bytes exist; "emptybody" = a body was framed
// but is empty (chunked with only the last chunk): the statement's "body-less" is not decided
// for it, so the GET clause of R1 does not judge it.
func c08bodyClass(body string) string {
	switch body {
	case "none", "cl0":
		return "nobody"
	case "chunked0":
		return "emptybody"
	}
	return "body"
}

// ---- families -------------------------------------------------------------------------------

type c08family struct {
	lay      *c08layout
	m, c, rl int
	method   string
	body     string
	down     []string
	cookie   string
	primary  string // primary sub-cluster of this request ("" unknown)
	presleep int    // ns the fake clock is advanced before the request (rotates the cross pick)
	alphabet []string
	est      int64
	hist     *c08hist // nil: cluster present since start-up of the shared server; else see c08hist
	real     *c08real // non-nil: the real bfe_http.Transport against a scripted in-memory backend
}

func (f *c08family) cluster() string {
	if f.hist != nil {
		return c08histCluster
	}
	return c08clusterName(f.lay.name, f.m, f.c, f.rl)
}
func (f *c08family) cap() int { return 1 + f.m + f.c }
func (f *c08family) name() string {
	if f.real != nil {
		return fmt.Sprintf("T[%s]/%s/%s-%s/A%d", f.real.name(), c08clusterName(f.lay.name, f.m, f.c, f.rl), f.method, f.body, len(f.alphabet))
	}
	if f.hist != nil {
		return fmt.Sprintf("H[%s]/%sm%dc%dr%d/%s-%s/A%d", f.hist.name(), f.lay.name, f.m, f.c, f.rl, f.method, f.body, len(f.alphabet))
	}
	return fmt.Sprintf("%s/%s-%s/dn[%s]/%s/ps%d/A%d", f.cluster(), f.method, f.body, strings.Join(f.down, ","), f.cookie, f.presleep, len(f.alphabet))
}

func (f *c08family) request() string {
	h := f.method + " /" + f.cluster() + "/x HTTP/1.1\r\nHost: example.org\r\nCookie: UID=" + f.cookie + "\r\n"
	switch f.body {
	case "cl0":
		return h + "Content-Length: 0\r\n\r\n"
	case "cl":
		return h + "Content-Length: 5\r\n\r\nhello"
	case "clexpect":
		return h + "Expect: 100-continue\r\nContent-Length: 5\r\n\r\nhello"
	case "chunked":
		return h + "Transfer-Encoding: chunked\r\n\r\n5\r\nhello\r\n0\r\n\r\n"
	case "chunked0":
		return h + "Transfer-Encoding: chunked\r\n\r\n0\r\n\r\n"
	}
	return h + "\r\n"
}

// model: may bfe send the request again after an attempt that ended with `kind`?
func (f *c08family) mayResendAfter(kind string) bool {
	if c08isResponse(kind) {
		return false // the attempt did not fail
	}
	if c08isConnect(kind) {
		return true
	}
	return f.method == "GET" && c08bodyClass(f.body) != "body" && f.rl == 1
}

func (f *c08family) estimate() int64 {
	cont := 0
	for _, k := range f.alphabet {
		if c08isConnect(k) || (!c08isResponse(k) && k != "other" && k != "fcgi-write" && f.method == "GET" && c08bodyClass(f.body) == "nobody" && f.rl == 1) {
			cont++
		}
	}
	var n, p int64 = 0, 1
	for j := 0; j < f.cap(); j++ {
		n += p * int64(len(f.alphabet))
		p *= int64(cont)
	}
	return n
}

type c08topo struct {
	lay     *c08layout
	down    []string
	cookie  string
	primary string
}

// Fake-clock offsets (ns) applied before the request is sent. randomSelectExclude seeds its
// choice of the cross-retry sub-cluster with time.Now().UnixNano(); inside the bubble the clock
// is 2000-01-01T00:00:00Z + offset, and these offsets make that choice take every residue
// mod 2 and mod 3 (quick), also mod 4 (thorough) — i.e. every candidate sub-cluster is picked
// in some family (see the sum_attempts_outside_primary_to_* counters). Only families with
// CrossRetry > 0 are multiplied by the offsets (quick tier: only layouts L1 and L3).
var c08presleepsQ = []int{0, 3, 7}
var c08presleepsT = []int{0, 1, 3, 4, 7, 9}

func c08families(thorough bool, topos []c08topo) []*c08family {
	var fs []*c08family
	rcs, bodies, kinds := c08retryConfsQ, c08bodiesQ, c08kindsQ
	if thorough {
		rcs, bodies, kinds = c08retryConfsT, c08bodiesT, c08kindsT
	}
	for _, tp := range topos {
		for _, mc := range rcs {
			pss := []int{0}
			if mc[1] > 0 {
				if thorough {
					pss = c08presleepsT
				} else if tp.lay.name == "L1" || tp.lay.name == "L3" {
					pss = c08presleepsQ // quick: only where the weight-0 candidates give the pick a choice
				}
			}
			for _, ps := range pss {
				for rl := 0; rl <= 1; rl++ {
					for _, method := range c08methods {
						bs := bodies
						if !thorough && method == "GET" {
							bs = append(append([]string{}, bodies...), "cl0")
						}
						for _, body := range bs {
							f := &c08family{lay: tp.lay, m: mc[0], c: mc[1], rl: rl, method: method, body: body,
								down: tp.down, cookie: tp.cookie, primary: tp.primary, presleep: ps}
							for _, k := range kinds {
								if k == "writepart" && c08bodyClass(body) != "body" {
									continue // same as write0 when there is nothing to take
								}
								f.alphabet = append(f.alphabet, k)
							}
							f.est = f.estimate()
							fs = append(fs, f)
						}
					}
				}
			}
		}
	}
	return fs
}

// ---- one execution --------------------------------------------------------------------------

type c08att struct {
	kind      string
	sub       string
	backend   string
	raw       []byte
	bodyBytes int // payload bytes of the request body this attempt took
	werr      string
	reused    bool // real transport: the request travelled on a connection taken from the idle pool
}

type c08world struct {
	mu         sync.Mutex
	fam        *c08family
	ch         *vk.Chooser
	backs      map[string]*backend.BfeBackend // "sub/name" of the family's cluster
	atts       []c08att
	forced     int
	harnessErr string
}

type c08transport struct {
	cluster string
	w       *c08world
}

// payload bytes of the body in what Request.Write produced
func c08bodyData(raw []byte) int {
	i := bytes.Index(raw, []byte("\r\n\r\n"))
	if i < 0 {
		return 0
	}
	head, tail := raw[:i], raw[i+4:]
	if bytes.Contains(bytes.ToLower(head), []byte("transfer-encoding: chunked")) {
		n := 0
		for len(tail) > 0 {
			j := bytes.Index(tail, []byte("\r\n"))
			if j < 0 {
				break
			}
			sz, err := strconv.ParseInt(string(tail[:j]), 16, 64)
			if err != nil || sz == 0 {
				break
			}
			tail = tail[j+2:]
			if int(sz) > len(tail) {
				n += len(tail)
				break
			}
			n += int(sz)
			tail = tail[sz:]
			if len(tail) >= 2 {
				tail = tail[2:]
			}
		}
		return n
	}
	return len(tail)
}

func (t *c08transport) RoundTrip(req *bfe_http.Request) (*bfe_http.Response, error) {
	w := t.w
	w.mu.Lock()
	defer w.mu.Unlock()
	f := w.fam
	att := c08att{backend: req.URL.Host}
	if t.cluster != f.cluster() {
		w.harnessErr = "RoundTrip on cluster " + t.cluster + ", expected " + f.cluster()
	}
	bk, ok := f.lay.byAddr[req.URL.Host]
	if !ok {
		w.harnessErr = "RoundTrip to unknown backend address " + req.URL.Host
	}
	att.sub = bk.sub
	kind := "ok"
	if len(w.atts) < f.cap()+2 && !w.ch.Skipped {
		kind = f.alphabet[w.ch.Choose(len(f.alphabet))]
	} else {
		w.forced++ // far beyond the cap already (R2 reports it): end the execution
	}
	att.kind = kind
	write := func() { // what the real transport's write loop does
		var buf bytes.Buffer
		if err := req.Write(&buf); err != nil {
			att.werr = err.Error()
		}
		att.raw = buf.Bytes()
		att.bodyBytes = c08bodyData(att.raw)
	}
	var res *bfe_http.Response
	var err error
	switch kind {
	case "ok":
		write()
		res = h1resp(req, 200, map[string]string{"Content-Length": "2"}, "ok")
	case "ok500":
		write()
		res = h1resp(req, 500, map[string]string{"Content-Length": "2"}, "no")
	case "connect":
		err = bfe_http.ConnectError{Addr: req.URL.Host, Err: errors.New("verif: connect refused")}
	case "connect-down":
		// the dial fails and the health of the whole sub-cluster is gone
		for k, b := range w.backs {
			if strings.HasPrefix(k, att.sub+"/") {
				b.SetAvail(false)
			}
		}
		err = bfe_http.ConnectError{Addr: req.URL.Host, Err: errors.New("verif: connect refused")}
	case "fcgi-connect":
		err = bfe_fcgi.ConnectError{Addr: req.URL.Host, Err: errors.New("verif: fcgi dial failed")}
	case "write0":
		err = bfe_http.WriteRequestError{Err: errors.New("verif: write failed before any byte")}
	case "writepart":
		if req.Body != nil {
			var b [2]byte
			n, _ := io.ReadFull(req.Body, b[:])
			att.bodyBytes = n
		}
		err = bfe_http.WriteRequestError{Err: errors.New("verif: write failed in the body")}
	case "write":
		write()
		err = bfe_http.WriteRequestError{Err: errors.New("verif: write failed at the end")}
	case "readhdr":
		write()
		err = bfe_http.ReadRespHeaderError{Err: errors.New("verif: read header failed")}
	case "hdrtimeout":
		write()
		err = bfe_http.RespHeaderTimeoutError{}
	case "broken":
		write()
		err = bfe_http.TransportBrokenError{}
	case "fcgi-readhdr":
		write()
		err = bfe_fcgi.ReadRespHeaderError{Err: errors.New("verif: fcgi read header failed")}
	case "fcgi-write":
		write()
		err = bfe_fcgi.WriteRequestError{Err: errors.New("verif: fcgi write failed")}
	default: // "other"
		write()
		err = errors.New("verif: other transport error")
	}
	w.atts = append(w.atts, att)
	return res, err
}

type c08result struct {
	atts   []c08att
	status string // status code the client got, "closed" or "none"
	err    string
	forced int
}

func c08backs(srv *BfeServer, cluster string) map[string]*backend.BfeBackend {
	out := map[string]*backend.BfeBackend{}
	for k, b := range srv.balTable.VerifBackends() {
		if strings.HasPrefix(k, cluster+"/") {
			out[strings.TrimPrefix(k, cluster+"/")] = b
		}
	}
	return out
}

// c08reset puts the family's cluster of the shared server into the family's initial state.
func c08reset(srv *BfeServer, f *c08family, backs map[string]*backend.BfeBackend) {
	down := map[string]bool{}
	for _, n := range f.down {
		down[n] = true
	}
	for _, b := range backs {
		b.SetAvail(true)
		b.ResetFailNum()
		for b.ConnNum() > 0 {
			b.DecConnNum()
		}
		for b.ConnNum() < 0 {
			b.IncConnNum()
		}
		if down[b.Name] {
			b.SetAvail(false)
		}
	}
	bal, err := srv.balTable.Lookup(f.cluster())
	if err != nil {
		panic(err)
	}
	bal.C08VerifResetRR()
}

func c08exec(t *testing.T, srv *BfeServer, f *c08family, backs map[string]*backend.BfeBackend, ch *vk.Chooser) c08result {
	c08reset(srv, f, backs)
	w := &c08world{fam: f, ch: ch, backs: backs}
	var res c08result
	h1run(t, srv, nil, func(e *h1env) {
		srv.ReverseProxy.tsMu.Lock()
		for name := range srv.ReverseProxy.transports {
			srv.ReverseProxy.transports[name] = &c08transport{cluster: name, w: w}
		}
		srv.ReverseProxy.tsMu.Unlock()
		if f.presleep > 0 {
			e.sleep(time.Duration(f.presleep))
		}
		e.send(f.request())
		out := e.out()
		// skip an interim 100 Continue
		for bytes.HasPrefix(out, []byte("HTTP/1.1 100")) {
			i := bytes.Index(out, []byte("\r\n\r\n"))
			if i < 0 {
				break
			}
			out = out[i+4:]
		}
		switch {
		case len(out) >= 12 && bytes.HasPrefix(out, []byte("HTTP/1.")):
			res.status = string(out[9:12])
		case e.closed() || e.serveDone():
			res.status = "closed"
		default:
			res.status = "none"
		}
	})
	res.atts = w.atts
	res.err = w.harnessErr
	res.forced = w.forced
	if res.status == "none" && res.err == "" {
		res.err = "request neither answered nor connection closed at quiescence"
	}
	return res
}

// ---- reference model ------------------------------------------------------------------------

type c08viol struct{ sig, detail string }

func c08history(f *c08family, atts []c08att) string {
	var s []string
	for i, a := range atts {
		x := fmt.Sprintf("#%d %s/%s(%s) -> %s, body bytes taken %d", i+1, a.sub, f.lay.byAddr[a.backend].name, a.backend, a.kind, a.bodyBytes)
		if a.werr != "" {
			x += " [Request.Write: " + a.werr + "]"
		}
		if a.reused {
			x += " [on a reused keep-alive connection]"
		}
		s = append(s, x)
	}
	return strings.Join(s, "; ")
}

func c08judge(f *c08family, atts []c08att) []c08viol {
	var vs []c08viol
	n := len(atts)
	ctx := fmt.Sprintf("cluster RetryMax=%d CrossRetry=%d RetryLevel=%d, layout %s weights %v, initially down %v, primary sub-cluster %q; request %s with body=%s; attempts: %s",
		f.m, f.c, f.rl, f.lay.name, f.lay.weights, f.down, f.primary, f.method, f.body, c08history(f, atts))
	if f.hist != nil {
		ctx = fmt.Sprintf("configuration history %s (start-up with server data conf S%d and gslb data conf G%d, then reloads in that order; S versions of cluster X = RetryMax/CrossRetry/RetryLevel %v, G versions = layout of X %q); in force: ", f.hist.name(), f.hist.s0, f.hist.g0, c08histS, c08histG) + ctx
	}
	// R1
	for k := 0; k+1 < n; k++ {
		if !f.mayResendAfter(atts[k].kind) {
			sfx := ""
			if atts[k].reused {
				sfx = ":reused-conn"
			}
			vs = append(vs, c08viol{
				sig:    fmt.Sprintf("resend:%s:%s:L%d:after-%s", f.method, c08bodyClass(f.body), f.rl, c08kindClass(atts[k].kind)) + sfx,
				detail: fmt.Sprintf("attempt %d follows attempt %d which ended with %s; %s", k+2, k+1, atts[k].kind, ctx)})
			break
		}
	}
	// R2
	if n > f.cap() {
		vs = append(vs, c08viol{sig: "bound:attempts-exceed-1+RetryMax+CrossRetry",
			detail: fmt.Sprintf("%d attempts > %d; %s", n, f.cap(), ctx)})
	}
	// R3
	for k, a := range atts {
		if a.sub == c08blackhole {
			vs = append(vs, c08viol{sig: "cross:attempt-to-blackhole",
				detail: fmt.Sprintf("attempt %d went to a backend of %s; %s", k+1, c08blackhole, ctx)})
			break
		}
	}
	if f.primary != "" && f.primary != c08blackhole {
		for k, a := range atts {
			if k+1 > 1+f.m && a.sub == f.primary {
				vs = append(vs, c08viol{sig: "cross:attempt-beyond-RetryMax-in-primary-subcluster",
					detail: fmt.Sprintf("attempt %d > 1+RetryMax is a cross-sub-cluster attempt but went to the primary sub-cluster %s; %s", k+1, f.primary, ctx)})
				break
			}
		}
	}
	// R4
	for k, a := range atts {
		if a.bodyBytes > 0 {
			if k+1 < n {
				vs = append(vs, c08viol{sig: fmt.Sprintf("body-replayed:%s:%s", f.method, f.body),
					detail: fmt.Sprintf("attempt %d took %d body bytes, yet attempt %d was made (it carried: %s); %s", k+1, a.bodyBytes, k+2, vk.Q(atts[k+1].raw), ctx)})
			}
			break
		}
	}
	return vs
}

// ---- configuration histories ----------------------------------------------------------------
//
// The retry budget a request sees is a copy: RetryMax / CrossRetry live in cluster_conf (server
// data conf) and are pushed into the per-cluster balancer objects, which are created and replaced
// by gslb / cluster_table (re)loads. So the statement must hold after EVERY order of loads, not
// only for clusters present at start-up. A history = start-up (real InitDataLoad) with one
// version of the server data conf and one of the gslb data conf, followed by every sequence (up
// to a depth) of the real reload operations srv.serverDataConfReload(version) and
// srv.gslbDataConfReload(version), on a fresh server. Versions of the cluster under test "X":
//   server data conf  S0: RetryMax 0 CrossRetry 0 RetryLevel 0 | S1: 2/1/1 | S2: 1/0/1
//   gslb data conf    G0: X absent (only cluster K) | G1: X with layout L1 | G2: X with layout L3
// (X is always routed and always in cluster_conf, so introducing / removing / re-introducing X by
// gslb reloads, changing its layout, and changing its retry settings while its balancer exists
// or not, are all covered.) Reference model of a history: the retry settings in force are those of
// the last server data conf applied, the layout that of the last gslb data conf applied; the
// existing oracle R1..R4 is then evaluated with exactly these on every fault sequence.

const c08histCluster = "X"

var c08histS = [][3]int{{0, 0, 0}, {2, 1, 1}, {1, 0, 1}} // RetryMax, CrossRetry, RetryLevel of X
var c08histG = []string{"", "L1", "L3"}                  // layout of X ("" = X not in gslb / cluster_table)

type c08hop struct {
	kind byte // 'S' or 'G'
	v    int
}

type c08hist struct {
	s0, g0 int
	ops    []c08hop
}

func (h *c08hist) name() string {
	s := fmt.Sprintf("S%dG%d", h.s0, h.g0)
	for _, o := range h.ops {
		s += fmt.Sprintf(".%c%d", o.kind, o.v)
	}
	return s
}

// model: versions in force after the history
func (h *c08hist) final() (sv, gv int) {
	sv, gv = h.s0, h.g0
	for _, o := range h.ops {
		if o.kind == 'S' {
			sv = o.v
		} else {
			gv = o.v
		}
	}
	return
}

func c08hists(depth int) []*c08hist {
	var out []*c08hist
	ops := []c08hop{}
	for v := range c08histS {
		ops = append(ops, c08hop{'S', v})
	}
	for v := range c08histG {
		ops = append(ops, c08hop{'G', v})
	}
	var rec func(h *c08hist)
	rec = func(h *c08hist) {
		if _, gv := h.final(); c08histG[gv] != "" {
			out = append(out, h) // X has a balancer: requests reach the retry loop
		}
		if len(h.ops) == depth {
			return
		}
		for _, o := range ops {
			rec(&c08hist{s0: h.s0, g0: h.g0, ops: append(append([]c08hop{}, h.ops...), o)})
		}
	}
	for s0 := range c08histS {
		for g0 := range c08histG {
			rec(&c08hist{s0: s0, g0: g0})
		}
	}
	return out
}

type c08histFiles struct {
	host, vip, route string
	clusterConf      []string // per S version
	gslb, table      []string // per G version
}

func c08clusterConfEntry(m, c, rl int) map[string]interface{} {
	type M = map[string]interface{}
	return M{
		"BackendConf":  M{"TimeoutConnSrv": 2000, "TimeoutResponseHeader": 50000, "MaxIdleConnsPerHost": 0, "RetryLevel": rl},
		"CheckConf":    M{"Schem": "tcp", "FailNum": 1000, "CheckInterval": 1000},
		"GslbBasic":    M{"CrossRetry": c, "RetryMax": m, "HashConf": M{"HashStrategy": 0, "HashHeader": "Cookie:UID", "SessionSticky": false}},
		"ClusterBasic": M{"TimeoutReadClient": 30000, "TimeoutWriteClient": 60000, "TimeoutReadClientAgain": 30000, "ReqWriteBufferSize": 512, "ReqFlushInterval": 0, "ResFlushInterval": -1, "CancelOnClientClose": false},
	}
}

func c08writeHistFiles(dir string, lays []*c08layout) *c08histFiles {
	type M = map[string]interface{}
	os.MkdirAll(dir, 0o755)
	byName := map[string]*c08layout{}
	for _, l := range lays {
		byName[l.name] = l
	}
	fs := &c08histFiles{}
	fs.host = h1write(dir, "host_rule.data", M{"Version": "v", "DefaultProduct": nil, "Hosts": M{"tag": []string{"example.org"}}, "HostTags": M{"p": []string{"tag"}}})
	fs.vip = h1write(dir, "vip_rule.data", M{"Version": "v", "Vips": M{}})
	fs.route = h1write(dir, "route_rule.data", M{"Version": "v", "ProductRule": M{"p": []M{
		{"Cond": fmt.Sprintf("req_path_prefix_in(\"/%s/\", false)", c08histCluster), "ClusterName": c08histCluster},
		{"Cond": "default_t()", "ClusterName": "K"}}}})
	for v, mcr := range c08histS {
		fs.clusterConf = append(fs.clusterConf, h1write(dir, fmt.Sprintf("cluster_conf.S%d.data", v), M{"Version": fmt.Sprintf("S%d", v), "Config": M{
			c08histCluster: c08clusterConfEntry(mcr[0], mcr[1], mcr[2]),
			"K":            c08clusterConfEntry(0, 0, 0)}}))
	}
	for v, ln := range c08histG {
		g := M{"K": M{"GSLB_BLACKHOLE": 0, "s1": 100}}
		tb := M{"K": M{"s1": []M{{"Addr": "10.0.1.1", "Name": "k1", "Port": 80, "Weight": 1}}}}
		if ln != "" {
			l := byName[ln]
			gx, tx := M{}, M{}
			for sub, bks := range l.subs {
				gx[sub] = l.weights[sub]
				var bl []M
				for _, b := range bks {
					bl = append(bl, M{"Addr": b.Addr, "Name": b.Name, "Port": b.Port, "Weight": b.Weight})
				}
				tx[sub] = bl
			}
			g[c08histCluster], tb[c08histCluster] = gx, tx
		}
		fs.gslb = append(fs.gslb, h1write(dir, fmt.Sprintf("gslb.G%d.data", v), M{"Clusters": g, "Hostname": "", "Ts": fmt.Sprint(v)}))
		fs.table = append(fs.table, h1write(dir, fmt.Sprintf("cluster_table.G%d.data", v), M{"Config": tb, "Version": fmt.Sprintf("G%d", v)}))
	}
	return fs
}

// c08histServer plays the history on a fresh real server (outside any bubble).
func c08histServer(t *testing.T, dir string, fs *c08histFiles, h *c08hist) *BfeServer {
	cfg := bfe_conf.BfeConfig{}
	bfe_conf.SetDefaultConf(&cfg)
	cfg.Server.HostRuleConf, cfg.Server.VipRuleConf, cfg.Server.RouteRuleConf = fs.host, fs.vip, fs.route
	cfg.Server.ClusterConf = fs.clusterConf[h.s0]
	cfg.Server.GslbConf, cfg.Server.ClusterTableConf = fs.gslb[h.g0], fs.table[h.g0]
	cfg.Server.NameConf = ""
	srv := NewBfeServer(cfg, dir, "verif")
	if err := srv.InitDataLoad(); err != nil {
		t.Fatalf("c08 history %s: InitDataLoad: %v", h.name(), err)
	}
	for i, o := range h.ops {
		var err error
		if o.kind == 'S' {
			err = srv.serverDataConfReload(fs.host, fs.vip, fs.route, fs.clusterConf[o.v])
		} else {
			err = srv.gslbDataConfReload(fs.gslb[o.v], fs.table[o.v])
		}
		if err != nil {
			t.Fatalf("c08 history %s: op %d: %v", h.name(), i, err)
		}
	}
	return srv
}

var c08histKinds = []string{"ok", "connect", "connect-down", "readhdr", "other"}
var c08histShapesQ = [][2]string{{"GET", "none"}, {"POST", "cl"}}
var c08histShapesT = [][2]string{{"GET", "none"}, {"POST", "cl"}, {"GET", "chunked"}, {"HEAD", "none"}}

func c08histFamilies(h *c08hist, lays []*c08layout, thorough bool) []*c08family {
	sv, gv := h.final()
	var lay *c08layout
	for _, l := range lays {
		if l.name == c08histG[gv] {
			lay = l
		}
	}
	shapes := c08histShapesQ
	if thorough {
		shapes = c08histShapesT
	}
	var fs []*c08family
	for _, sh := range shapes {
		f := &c08family{lay: lay, m: c08histS[sv][0], c: c08histS[sv][1], rl: c08histS[sv][2], method: sh[0], body: sh[1],
			cookie: "u0", primary: lay.primary, alphabet: c08histKinds, hist: h}
		f.est = f.estimate()
		fs = append(fs, f)
	}
	return fs
}

// one unit of work for a shard: a set of families that share one server
type c08unit struct {
	key  string
	est  int64
	fams []*c08family
	hist *c08hist
}

// ---- real transport --------------------------------------------------------------------------
//
// In the families above the RoundTripper is scripted, so the classification of real transport
// failures into bfe's error types (which is what clusterInvoke's retry decision hangs on) is
// outside the loop. Here the cluster keeps the REAL bfe_http.Transport built by the real
// createTransport (only its Dial is replaced by an in-memory seam; keep-alive to the backend on
// or off), and the backend is a scripted peer on the other end of every connection:
//   per dial      : refused | accepted
//   per request on a connection (fresh or taken from the idle pool): answer 200 keep-alive |
//                   answer 200 Connection: close | the first write fails | the write fails after
//                   2 body bytes | read the whole request then FIN | ... then RST | ... then half
//                   a status line and FIN | ... then silence (response header timeout)
//   connection history: fresh | a previous request of the same client was answered and left its
//                   connection in the idle pool | ... and the backend closed that idle connection
// Attempts are what the backend side sees (a refused dial, or a request started on a connection);
// "failed while connecting" = the dial was refused. R1..R4 are evaluated on these attempts with
// the body bytes the backend really received.

type c08real struct {
	keepalive bool
	history   string // fresh | warm | warm-idleclosed
}

func (x *c08real) name() string {
	ka := "ka0"
	if x.keepalive {
		ka = "ka1"
	}
	return ka + "," + x.history
}

var c08realKinds = []string{"answer", "dial-refused", "write-fails-at-once", "write-fails-in-body", "eof-after-request", "reset-after-request", "partial-header-eof", "silent", "answer-close"}

type c08tworld struct {
	mu      sync.Mutex
	fam     *c08family
	ch      *vk.Chooser
	phase   string // warm | judged
	atts    []c08att
	conns   []*c08bconn
	forced  int
	err     string
	backs   map[string]*backend.BfeBackend
	warmReq int
}

// choose the fate of the next attempt; caller holds w.mu
func (w *c08tworld) choose(reuse bool) string {
	f := w.fam
	if len(w.atts) >= f.cap()+2 || w.ch.Skipped {
		w.forced++
		return "answer"
	}
	var alpha []string
	for _, k := range f.alphabet {
		if reuse && k == "dial-refused" {
			continue
		}
		alpha = append(alpha, k)
	}
	return alpha[w.ch.Choose(len(alpha))]
}

// c08bconn is the transport's end of one backend connection; the scripted peer lives in its
// Write method (it reacts when request bytes arrive), so no extra goroutine is involved.
type c08bconn struct {
	w      *c08tworld
	addr   string
	cond   *sync.Cond // on w.mu
	in     []byte     // bytes the peer has sent
	inErr  error      // delivered after `in` is drained (io.EOF = FIN)
	closed bool       // closed by the transport
	recv   []byte     // bytes of the current request the peer has received
	mode   string     // fate of the current request; "" = idle, waiting for the next request
	att    int        // index of the current request in w.atts (-1: warm-up request)
	reqs   int
}

var c08errPipe = &net.OpError{Op: "write", Net: "tcp", Err: syscall.EPIPE}
var c08errReset = &net.OpError{Op: "read", Net: "tcp", Err: syscall.ECONNRESET}

// c08reqSplit: header length (incl. blank line), and whether the request in b is complete
func c08reqSplit(b []byte) (hdr int, complete bool) {
	i := bytes.Index(b, []byte("\r\n\r\n"))
	if i < 0 {
		return -1, false
	}
	hdr = i + 4
	head := bytes.ToLower(b[:hdr])
	body := b[hdr:]
	if bytes.Contains(head, []byte("transfer-encoding: chunked")) {
		return hdr, bytes.HasSuffix(body, []byte("0\r\n\r\n"))
	}
	if j := bytes.Index(head, []byte("content-length: ")); j >= 0 {
		var n int
		fmt.Sscanf(string(head[j+len("content-length: "):]), "%d", &n)
		return hdr, len(body) >= n
	}
	return hdr, true
}

func (c *c08bconn) Write(p []byte) (int, error) {
	w := c.w
	w.mu.Lock()
	defer w.mu.Unlock()
	defer c.cond.Broadcast()
	if c.closed {
		return 0, errors.New("use of closed network connection")
	}
	if c.mode == "" { // a new request starts on an idle (reused) connection
		c.recv = nil
		if w.phase == "warm" {
			c.mode, c.att = "answer", -1
		} else {
			c.mode = w.choose(true)
			w.atts = append(w.atts, c08att{kind: c.mode, backend: c.addr, sub: w.fam.lay.byAddr[c.addr].sub, reused: c.reqs > 0})
			c.att = len(w.atts) - 1
		}
		c.reqs++
	}
	switch c.mode {
	case "write-fails-at-once", "dead":
		return 0, c08errPipe
	}
	n := len(p)
	var werr error
	c.recv = append(c.recv, p...)
	hdr, complete := c08reqSplit(c.recv)
	if c.mode == "write-fails-in-body" && hdr >= 0 && len(c.recv) > hdr+2 {
		// the peer takes the header and 2 body bytes, then the connection breaks
		n -= len(c.recv) - (hdr + 2)
		c.recv = c.recv[:hdr+2]
		werr, complete = c08errPipe, false
		c.mode = "dead"
	}
	if c.att >= 0 {
		w.atts[c.att].raw = append([]byte(nil), c.recv...)
		w.atts[c.att].bodyBytes = c08bodyData(c.recv)
	}
	if complete {
		head := "HTTP/1.1 200 OK\r\nContent-Length: 2\r\n"
		body := "ok"
		if bytes.HasPrefix(c.recv, []byte("HEAD ")) {
			body = ""
		}
		switch c.mode {
		case "answer":
			c.in = append(c.in, head+"\r\n"+body...)
			c.mode = ""
		case "answer-close":
			c.in = append(c.in, head+"Connection: close\r\n\r\n"+body...)
			c.inErr = io.EOF
			c.mode = "dead"
		case "eof-after-request":
			c.inErr = io.EOF
			c.mode = "dead"
		case "reset-after-request":
			c.inErr = c08errReset
			c.mode = "dead"
		case "partial-header-eof":
			c.in = append(c.in, "HTTP/1.1 200 OK\r\nContent-Le"...)
			c.inErr = io.EOF
			c.mode = "dead"
		case "silent", "write-fails-in-body":
			c.mode = "dead" // says nothing more
		}
		if c.att < 0 {
			w.warmReq++
		}
	}
	return n, werr
}

func (c *c08bconn) Read(p []byte) (int, error) {
	c.w.mu.Lock()
	defer c.w.mu.Unlock()
	for len(c.in) == 0 && c.inErr == nil && !c.closed {
		c.cond.Wait()
	}
	if c.closed {
		return 0, errors.New("use of closed network connection")
	}
	if len(c.in) > 0 {
		n := copy(p, c.in)
		c.in = c.in[n:]
		return n, nil
	}
	return 0, c.inErr
}

func (c *c08bconn) Close() error {
	c.w.mu.Lock()
	c.closed = true
	c.cond.Broadcast()
	c.w.mu.Unlock()
	return nil
}

// peerClose: the backend closes its side (FIN)
func (c *c08bconn) peerClose() {
	c.w.mu.Lock()
	if c.inErr == nil {
		c.inErr = io.EOF
	}
	if c.mode == "" {
		c.mode = "dead"
	}
	c.cond.Broadcast()
	c.w.mu.Unlock()
}

func (c *c08bconn) LocalAddr() net.Addr { return &net.TCPAddr{IP: net.IPv4(10, 9, 0, 1), Port: 50000} }
func (c *c08bconn) RemoteAddr() net.Addr {
	return &net.TCPAddr{IP: net.IPv4(10, 0, 0, 1), Port: 80}
}
func (c *c08bconn) SetDeadline(t time.Time) error      { return nil }
func (c *c08bconn) SetReadDeadline(t time.Time) error  { return nil }
func (c *c08bconn) SetWriteDeadline(t time.Time) error { return nil }

func (w *c08tworld) dial(network, addr string) (net.Conn, error) {
	w.mu.Lock()
	defer w.mu.Unlock()
	if _, ok := w.fam.lay.byAddr[addr]; !ok {
		w.err = "dial to unknown backend address " + addr
	}
	c := &c08bconn{w: w, addr: addr, att: -1}
	c.cond = sync.NewCond(&w.mu)
	if w.phase == "warm" {
		c.mode = "answer"
	} else {
		kind := w.choose(false)
		w.atts = append(w.atts, c08att{kind: kind, backend: addr, sub: w.fam.lay.byAddr[addr].sub})
		if kind == "dial-refused" {
			return nil, &net.OpError{Op: "dial", Net: network, Err: syscall.ECONNREFUSED}
		}
		c.mode, c.att = kind, len(w.atts)-1
	}
	c.reqs = 1
	w.conns = append(w.conns, c)
	return c, nil
}

func c08status(out []byte) string {
	for bytes.HasPrefix(out, []byte("HTTP/1.1 100")) {
		i := bytes.Index(out, []byte("\r\n\r\n"))
		if i < 0 {
			break
		}
		out = out[i+4:]
	}
	if len(out) >= 12 && bytes.HasPrefix(out, []byte("HTTP/1.")) {
		return string(out[9:12])
	}
	return ""
}

func c08execReal(t *testing.T, srv *BfeServer, f *c08family, backs map[string]*backend.BfeBackend, ch *vk.Chooser) c08result {
	c08reset(srv, f, backs)
	w := &c08tworld{fam: f, ch: ch, backs: backs, phase: "judged"}
	var res c08result
	cluster, err := srv.ServerConf.ClusterTable.Lookup(f.cluster())
	if err != nil {
		t.Fatalf("c08: %v", err)
	}
	h1run(t, srv, nil, func(e *h1env) {
		tr, ok := createTransport(cluster).(*bfe_http.Transport) // the real transport of an http cluster
		if !ok {
			t.Fatalf("c08: createTransport did not return *bfe_http.Transport")
		}
		tr.Dial = w.dial
		if f.real.keepalive { // what BackendConf.MaxIdleConnsPerHost = 2 gives
			tr.DisableKeepAlives, tr.MaxIdleConnsPerHost = false, 2
		}
		srv.ReverseProxy.tsMu.Lock()
		srv.ReverseProxy.transports[f.cluster()] = tr
		srv.ReverseProxy.tsMu.Unlock()
		// wait for the answer to the request whose response starts at out[skip:], letting
		// response-header timeouts (fake clock) expire
		wait := func(skip int) string {
			for i := 0; i < f.cap()+4; i++ {
				if st := c08status(e.out()[skip:]); st != "" {
					return st
				}
				if e.closed() || e.serveDone() {
					return "closed"
				}
				if i == 0 {
					e.sleep(300 * time.Millisecond)
				} else {
					e.sleep(51 * time.Second)
				}
			}
			return "none"
		}
		skip := 0
		if f.real.history != "fresh" {
			w.phase = "warm"
			e.send("GET /" + f.cluster() + "/warm HTTP/1.1\r\nHost: example.org\r\nCookie: UID=" + f.cookie + "\r\n\r\n")
			if st := wait(0); st != "200" || w.warmReq != 1 {
				w.err = fmt.Sprintf("warm-up request not answered 200 by one backend request (status %q, backend requests %d)", st, w.warmReq)
			}
			skip = len(e.out())
			if f.real.history == "warm-idleclosed" {
				for _, c := range w.conns {
					c.peerClose()
				}
				e.sleep(time.Millisecond)
			}
			w.mu.Lock()
			w.phase = "judged"
			w.mu.Unlock()
		}
		e.send(f.request())
		res.status = wait(skip)
		// teardown of the backend side
		tr.CloseIdleConnections()
		for _, c := range w.conns {
			c.peerClose()
		}
		e.sleep(time.Second)
	})
	res.atts = w.atts
	res.err = w.err
	res.forced = w.forced
	if res.status == "none" && res.err == "" {
		res.err = "request neither answered nor connection closed at quiescence"
	}
	return res
}

var c08realConfsQ = [][2]int{{0, 0}, {1, 0}, {1, 1}}
var c08realConfsT = [][2]int{{0, 0}, {1, 0}, {2, 0}, {0, 1}, {1, 1}}
var c08realShapesQ = [][2]string{{"GET", "none"}, {"POST", "cl"}, {"POST", "cl0"}}
var c08realShapesT = [][2]string{{"GET", "none"}, {"POST", "cl"}, {"POST", "cl0"}, {"GET", "chunked"}, {"HEAD", "none"}, {"POST", "chunked"}}

func c08realFamilies(lays []*c08layout, thorough bool) []*c08family {
	var lay *c08layout
	for _, l := range lays {
		if l.name == "L3" { // one backend in the primary sub-cluster: the next request meets the pooled connection
			lay = l
		}
	}
	rcs, shapes := c08realConfsQ, c08realShapesQ
	if thorough {
		rcs, shapes = c08realConfsT, c08realShapesT
	}
	variants := []c08real{{false, "fresh"}, {true, "fresh"}, {true, "warm"}, {true, "warm-idleclosed"}}
	if thorough {
		variants = append(variants, c08real{false, "warm"})
	}
	var fs []*c08family
	for i := range variants {
		for _, mc := range rcs {
			for rl := 0; rl <= 1; rl++ {
				for _, sh := range shapes {
					f := &c08family{lay: lay, m: mc[0], c: mc[1], rl: rl, method: sh[0], body: sh[1], cookie: "u0", primary: lay.primary, real: &variants[i]}
					for _, k := range c08realKinds {
						if k == "write-fails-in-body" && c08bodyClass(sh[1]) != "body" {
							continue
						}
						f.alphabet = append(f.alphabet, k)
					}
					f.est = 3 * f.estimate()
					fs = append(fs, f)
				}
			}
		}
	}
	return fs
}

// ---- entry point ----------------------------------------------------------------------------

func c08topos(t *testing.T, srv *BfeServer, lays []*c08layout, thorough bool) []c08topo {
	var topos []c08topo
	for _, l := range lays {
		// hash keys: one per distinct primary sub-cluster. For layouts with a single weighted
		// sub-cluster the primary is that sub-cluster by the gslb rules; otherwise it is what a
		// fault-free request with this key is routed to (calibration run, everything up).
		type ck struct{ cookie, primary string }
		var cks []ck
		if l.primary != "" {
			cks = []ck{{"u0", l.primary}}
		} else {
			seen := map[string]bool{}
			for i := 0; i < 16 && len(seen) < 2; i++ {
				cookie := fmt.Sprintf("u%d", i)
				f := &c08family{lay: l, method: "GET", body: "none", cookie: cookie, alphabet: []string{"ok"}}
				res := c08exec(t, srv, f, c08backs(srv, f.cluster()), &vk.Chooser{})
				if res.err != "" {
					t.Fatalf("c08 calibration %s %s: %s", l.name, cookie, res.err)
				}
				p := c08blackhole // no attempt at all: the key hashes to the blackhole
				if len(res.atts) > 0 {
					p = res.atts[0].sub
				}
				if !seen[p] {
					seen[p] = true
					cks = append(cks, ck{cookie, p})
				}
			}
			if len(cks) < 2 {
				t.Fatalf("c08 calibration %s: only primaries %v found", l.name, cks)
			}
		}
		downs := l.downs
		if !thorough {
			downs = downs[:l.downsQ]
		}
		for _, c := range cks {
			for _, d := range downs {
				topos = append(topos, c08topo{lay: l, down: d, cookie: c.cookie, primary: c.primary})
			}
		}
	}
	return topos
}

func TestVerifC08(t *testing.T) {
	r := vk.Start(t, "C08")
	defer r.Finish()
	dir := os.Getenv("VERIF_SCRATCH")
	if dir == "" {
		dir = t.TempDir()
	}
	lays := c08layouts()
	srv := h1newServer(filepath.Join(dir, "c08"), c08spec(lays))
	histFiles := c08writeHistFiles(filepath.Join(dir, "c08hist"), lays)

	tiers := []bool{r.Thorough()}
	if r.Replaying() {
		tiers = []bool{false, true}
	}
	var units []*c08unit
	seen := map[string]bool{}
	nBase, nHist, nHistFam, nReal := 0, 0, 0, 0
	for _, th := range tiers {
		for _, f := range c08families(th, c08topos(t, srv, lays, th)) {
			if !seen[f.name()] {
				seen[f.name()] = true
				units = append(units, &c08unit{key: f.name(), est: f.est, fams: []*c08family{f}})
				nBase++
			}
		}
		for _, f := range c08realFamilies(lays, th) {
			if !seen[f.name()] {
				seen[f.name()] = true
				units = append(units, &c08unit{key: f.name(), est: f.est, fams: []*c08family{f}})
				nReal++
			}
		}
		depth := 2
		if th {
			depth = 3
		}
		for _, h := range c08hists(depth) {
			u := &c08unit{key: "H[" + h.name() + "]", hist: h, est: 40} // 40 ~ cost of building the server
			for _, f := range c08histFamilies(h, lays, th) {
				if !seen[f.name()] {
					seen[f.name()] = true
					u.fams = append(u.fams, f)
					u.est += f.est
				}
			}
			if len(u.fams) > 0 {
				units = append(units, u)
				nHist++
				nHistFam += len(u.fams)
			}
		}
	}
	// deal the units to the shards: largest first, each to the least loaded shard
	sort.SliceStable(units, func(i, j int) bool {
		if units[i].est != units[j].est {
			return units[i].est > units[j].est
		}
		return units[i].key < units[j].key
	})
	shardI, shardN := r.Shard()
	load := make([]int64, shardN)
	owner := make([]int, len(units))
	for i, u := range units {
		best := 0
		for s := 1; s < shardN; s++ {
			if load[s] < load[best] {
				best = s
			}
		}
		owner[i] = best
		load[best] += u.est + 2
	}
	rcs := c08retryConfsQ
	if r.Thorough() {
		rcs = c08retryConfsT
	}
	r.Set("bounds", fmt.Sprintf("start-up clusters: families=%d = 4 gslb layouts x initial availability x hash key (x clock offsets %v when CrossRetry>0) x (RetryMax,CrossRetry) in %v x RetryLevel 0..1 x %d methods x %d body shapes, answer alphabet %d kinds; configuration histories: %d histories (start-up with 3x3 versions + every sequence of <=%d reloads over {server data conf S0..S2, gslb data conf G0..G2} that leaves the cluster balanced) x %d request shapes = %d families, answer alphabet %d kinds; real transport: %d families (layout L3 x keep-alive off/on x connection history x (RetryMax,CrossRetry) in %v x RetryLevel 0..1 x %d request shapes), %d backend fates per attempt; every reachable answer sequence up to 1+RetryMax+CrossRetry attempts (max 4)",
		nBase, map[bool][]int{false: c08presleepsQ, true: c08presleepsT}[r.Thorough()], rcs, len(c08methods), r.Pick(len(c08bodiesQ), len(c08bodiesT)), r.Pick(len(c08kindsQ), len(c08kindsT)),
		nHist, r.Pick(2, 3), r.Pick(len(c08histShapesQ), len(c08histShapesT)), nHistFam, len(c08histKinds),
		nReal, map[bool][][2]int{false: c08realConfsQ, true: c08realConfsT}[r.Thorough()], r.Pick(len(c08realShapesQ), len(c08realShapesT)), len(c08realKinds)))

	backsOf := map[string]map[string]*backend.BfeBackend{}
	complete := true
	samples := 0
	for i, u := range units {
		if r.Replaying() {
			hit := false
			for _, f := range u.fams {
				if strings.HasPrefix(r.ReplayCase(), f.name()+"|trace:") {
					hit = true
				}
			}
			if !hit {
				continue
			}
		} else if owner[i] != shardI {
			continue
		}
		if !complete {
			break
		}
		usrv := srv
		if u.hist != nil {
			usrv = c08histServer(t, filepath.Join(dir, "c08hist"), histFiles, u.hist)
			r.Add("sum_histories_run", 1)
		}
		for _, f := range u.fams {
			f := f
			name := f.name()
			if r.Replaying() && !strings.HasPrefix(r.ReplayCase(), name+"|trace:") {
				continue
			}
			if !complete {
				break
			}
			var backs map[string]*backend.BfeBackend
			if u.hist != nil {
				backs = c08backs(usrv, f.cluster())
			} else if backs = backsOf[f.cluster()]; backs == nil {
				backs = c08backs(usrv, f.cluster())
				backsOf[f.cluster()] = backs
			}
			if len(backs) == 0 {
				t.Fatalf("c08: no backends for cluster %s in %s", f.cluster(), name)
			}
			var famExecs int64
			n := vk.ExploreSharded(r, name, 0, -1, func(ch *vk.Chooser) {
				var res c08result
				if f.real != nil {
					res = c08execReal(t, usrv, f, backs, ch)
				} else {
					res = c08exec(t, usrv, f, backs, ch)
				}
				if ch.Skipped {
					return
				}
				id := ch.CaseID(name)
				if !r.Case(id) {
					return
				}
				famExecs++
				if res.err != "" {
					t.Fatalf("c08 harness error in %s: %s; attempts: %s", id, res.err, c08history(f, res.atts))
				}
				na := len(res.atts)
				r.Add("sum_roundtrip_attempts", int64(na))
				r.Transitions(int64(na))
				failed := false
				cross := false
				for k, a := range res.atts {
					if !c08isResponse(a.kind) {
						failed = true
					}
					if f.primary != "" && a.sub != f.primary {
						cross = true
						r.Add("sum_attempts_outside_primary_to_"+a.sub, 1)
					}
					if k+1 < na {
						r.Add("sum_resent_after_"+c08kindClass(a.kind), 1)
					} else if !c08isResponse(a.kind) {
						r.Add("sum_not_resent_after_"+c08kindClass(a.kind), 1)
					}
				}
				if failed {
					r.Nontrivial(id)
				}
				final := "no-attempt"
				if na > 0 {
					final = "last-failed"
					if c08isResponse(res.atts[na-1].kind) {
						final = "last-answered"
					}
				}
				oc := fmt.Sprintf("attempts=%d/%s", na, final)
				if cross {
					oc += "/cross"
				}
				if res.status == "closed" {
					oc += "/conn-closed"
				}
				r.Outcome(oc)
				vs := c08judge(f, res.atts)
				if len(vs) > 0 {
					r.Outcome("VIOLATING")
					for _, v := range vs {
						sig := v.sig
						if f.hist != nil && len(f.hist.ops) > 0 {
							sig += ":after-reloads"
						}
						if f.real != nil {
							sig += ":real-transport"
						}
						r.Violation(sig, id, name+": "+v.detail)
					}
				} else if samples < 6 && na >= 2 && famExecs%53 == 7 {
					samples++
					r.Sample(map[string]interface{}{"case": id, "attempts": c08history(f, res.atts), "client": res.status})
				}
			}, func() bool {
				if r.Expired("c08 " + name) {
					complete = false
					return true
				}
				return false
			})
			r.Traces(n)
			r.States(n)
			r.Add("sum_families_run", 1)
			if f.real != nil {
				r.Add("sum_executions_real_transport", n)
			} else if u.hist != nil {
				r.Add("sum_executions_after_history", n)
			} else {
				r.Add("sum_executions_"+f.lay.name, n)
			}
		}
	}
}
