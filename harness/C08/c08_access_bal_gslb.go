//go:build verif

package bal_gslb

// C08VerifResetRR resets the round-robin credits of every sub-cluster (see bal_slb), so that
// every execution of check C08 starts from the same balancer state on a shared server object.
func (bal *BalanceGslb) C08VerifResetRR() {
	bal.lock.Lock()
	defer bal.lock.Unlock()
	for _, sub := range bal.subClusters {
		if sub.backends != nil {
			sub.backends.C08VerifResetRR()
		}
	}
}
