//go:build verif

package bal_slb

// C08VerifResetRR puts the round-robin credit of every backend of the sub-cluster back to its
// initial value (what Init leaves).
func (brr *BalanceRR) C08VerifResetRR() {
	brr.Lock()
	brr.backends.ResetWeight()
	brr.next = 0
	brr.Unlock()
}
