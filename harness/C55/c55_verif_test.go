//go:build verif

package bfe_fcgi

// C55 — FastCGI requests and responses are encoded faithfully.
// Engine E4 (bounded-exhaustive input enumeration against a reference FastCGI record decoder).
//
// Request side (real FCGIClient.Do = writeBeginRequest + writePairs + stdin writer, over an
// in-memory conn that never fails):
//   P1/P2/P3  every map of 1, 2, 3 parameters whose name/value lengths come from a boundary
//             alphabet (0,1,127,128, around maxWrite-8-len(name), 65535, 65536, 70000); for maps
//             of 2..3 entries the run is repeated until every rotation of Go's map iteration order
//             was seen (the oracle itself is order-insensitive);
//   PM        maps of N equal-sized small parameters, N around the points where the PARAMS stream
//             crosses one record;
//   B         bodies of boundary sizes x reader kinds (nil, bytes.Reader/WriterTo, plain reader with
//             several chunk sizes, data+EOF in one Read) x parameter maps;
//   T         the parameter map is produced by the real buildMetaValsAndMethod + the RoundTrip glue
//             from an HTTP request with long header names/values.
//   Oracle: the bytes written are split into records by c55DecodeRequest (version 1, 16-bit
//   content length, padding; the whole byte stream must be consumed exactly), BEGIN_REQUEST
//   {Responder} first, one request id, PARAMS and STDIN streams each closed by exactly one empty
//   record; the PARAMS stream parsed as FastCGI name-value pairs must equal the map, the STDIN
//   stream must equal the body; a panic is a violation ("no parameter size makes the client
//   crash").
//
// Response side (real streamReader returned by Do, and real readResponse on top of it):
//   R         every sequence of responder records up to a length over an alphabet of STDOUT /
//             STDERR records (header block whole and split, body chunks, empty records, natural /
//             zero / 255 padding, padding bytes non-zero) x terminator (END_REQUEST, END_REQUEST
//             followed by more records, conn EOF, conn cut inside the last record) x conn
//             fragmentation x consumer read size.
//   Oracle: S = concatenation of the STDOUT contents before END_REQUEST. The stream delivered by
//   the reader must be exactly S (a prefix of S when the reply is cut short); when S starts with a
//   complete CGI header block the response built by readResponse must have exactly the status,
//   header fields and body a boring reference parser finds in S.

import (
	"bytes"
	"encoding/binary"
	"fmt"
	"io"
	"io/ioutil"
	stdtextproto "net/textproto"
	"net/url"
	"sort"
	"strconv"
	"strings"
	"testing"
	"time"

	http "github.com/bfenetworks/bfe/bfe_http"
	"github.com/bfenetworks/bfe/verifkit/vk"
)

// ---------------------------------------------------------------------------------------
// In-memory conn: records everything bfe writes, delivers a scripted reply in fragments.

type c55conn struct {
	out    []byte
	writes int
	in     []byte
	pos    int
	frag   int // 0 = as much as the caller asks for, k = at most k bytes per Read
}

func (c *c55conn) Write(p []byte) (int, error) {
	c.out = append(c.out, p...)
	c.writes++
	return len(p), nil
}

func (c *c55conn) Read(p []byte) (int, error) {
	if c.pos >= len(c.in) {
		return 0, io.EOF
	}
	n := len(c.in) - c.pos
	if n > len(p) {
		n = len(p)
	}
	if c.frag > 0 && n > c.frag {
		n = c.frag
	}
	copy(p, c.in[c.pos:c.pos+n])
	c.pos += n
	return n, nil
}

func (c *c55conn) Close() error { return nil }

// ---------------------------------------------------------------------------------------
// Reference decoder for what a web server sends (FastCGI 1.0 spec sections 3.3, 3.4, 5.1-5.3).

type c55pair struct{ k, v []byte } // slices into the decoder scratch buffer

type c55req struct {
	err        string // "" = decodable
	role       uint16
	flags      byte
	id         uint16
	params     []c55pair
	stdin      []byte
	nrec       int
	maxPayload int
}

// c55readLen reads one name/value length (spec 3.4): 1 byte if the high bit is clear, else 4.
func c55readLen(b []byte) (n int, used int, ok bool) {
	if len(b) == 0 {
		return 0, 0, false
	}
	if b[0]>>7 == 0 {
		return int(b[0]), 1, true
	}
	if len(b) < 4 {
		return 0, 0, false
	}
	return int(b[0]&0x7f)<<24 | int(b[1])<<16 | int(b[2])<<8 | int(b[3]), 4, true
}

// scratch buffers reused between cases (one goroutine per process)
var c55paramsScratch, c55stdinScratch, c55outScratch []byte

func c55DecodeRequest(b []byte) *c55req {
	q := &c55req{}
	params := c55paramsScratch[:0]
	q.stdin = c55stdinScratch[:0]
	defer func() { c55stdinScratch = q.stdin[:0] }()
	began, paramsEnd, stdinEnd := false, false, false
	off := 0
	for off < len(b) {
		if len(b)-off < 8 {
			q.err = "truncated-header"
			return q
		}
		ver, typ := b[off], b[off+1]
		id := binary.BigEndian.Uint16(b[off+2:])
		cl := int(binary.BigEndian.Uint16(b[off+4:]))
		pl := int(b[off+6])
		if ver != 1 {
			q.err = "bad-version"
			return q
		}
		if len(b)-off-8 < cl+pl {
			q.err = "truncated-record"
			return q
		}
		content := b[off+8 : off+8+cl]
		off += 8 + cl + pl
		q.nrec++
		if cl > q.maxPayload {
			q.maxPayload = cl
		}
		if !began {
			if typ != 1 {
				q.err = "first-record-not-begin-request"
				return q
			}
			if cl != 8 || id == 0 {
				q.err = "bad-begin-request"
				return q
			}
			began = true
			q.id = id
			q.role = binary.BigEndian.Uint16(content)
			q.flags = content[2]
			continue
		}
		if id != q.id {
			q.err = "request-id-changes"
			return q
		}
		switch typ {
		case 4: // FCGI_PARAMS
			if paramsEnd {
				q.err = "params-after-end-of-stream"
				return q
			}
			if cl == 0 {
				paramsEnd = true
			}
			params = append(params, content...)
			c55paramsScratch = params[:0]
		case 5: // FCGI_STDIN
			if stdinEnd {
				q.err = "stdin-after-end-of-stream"
				return q
			}
			if cl == 0 {
				stdinEnd = true
			}
			q.stdin = append(q.stdin, content...)
		default:
			q.err = "unexpected-record-type-" + strconv.Itoa(int(typ))
			return q
		}
	}
	switch {
	case !began:
		q.err = "no-begin-request"
	case q.role != 1:
		q.err = "role-not-responder"
	case !paramsEnd:
		q.err = "params-stream-not-terminated"
	case !stdinEnd:
		q.err = "stdin-stream-not-terminated"
	}
	if q.err != "" {
		return q
	}
	for len(params) > 0 {
		nl, u1, ok := c55readLen(params)
		if !ok {
			q.err = "params-malformed-length"
			return q
		}
		vl, u2, ok := c55readLen(params[u1:])
		if !ok {
			q.err = "params-malformed-length"
			return q
		}
		params = params[u1+u2:]
		if nl+vl > len(params) {
			q.err = "params-pair-overruns-stream"
			return q
		}
		q.params = append(q.params, c55pair{params[:nl], params[nl : nl+vl]})
		params = params[nl+vl:]
	}
	return q
}

// ---------------------------------------------------------------------------------------
// Deterministic content.

var c55strCache = map[[3]int]string{}

// c55name returns a name of exactly n bytes that is unique per slot (n==0 gives "").
func c55name(slot, n int) string {
	key := [3]int{0, slot, n}
	if s, ok := c55strCache[key]; ok {
		return s
	}
	b := make([]byte, n)
	for i := range b {
		b[i] = byte('A' + (i*5+slot*3)%26)
	}
	if n > 0 {
		b[0] = byte('0' + slot%10)
	}
	if n > 1 {
		b[n-1] = byte('a' + slot%26)
	}
	s := string(b)
	c55strCache[key] = s
	return s
}

func c55value(slot, n int) string {
	key := [3]int{1, slot, n}
	if s, ok := c55strCache[key]; ok {
		return s
	}
	b := make([]byte, n)
	for i := range b {
		b[i] = byte('a' + (i*7+slot+i/251)%26)
	}
	s := string(b)
	c55strCache[key] = s
	return s
}

var c55bodyCache = map[int][]byte{}

func c55body(n int) []byte {
	if b, ok := c55bodyCache[n]; ok {
		return b
	}
	b := make([]byte, n)
	for i := range b {
		b[i] = byte((i*31 + i/253 + 1) % 251)
	}
	c55bodyCache[n] = b
	return b
}

// ---------------------------------------------------------------------------------------
// Readers for the request body.

type c55plainReader struct {
	b        []byte
	chunk    int
	eofWith  bool // deliver io.EOF together with the last bytes
	zeroAt   int  // >=0: return (0,nil) once when this many bytes were delivered
	zeroDone bool
	pos      int
}

func (p *c55plainReader) Read(dst []byte) (int, error) {
	if p.zeroAt >= 0 && !p.zeroDone && p.pos >= p.zeroAt {
		p.zeroDone = true
		return 0, nil
	}
	if p.pos >= len(p.b) {
		return 0, io.EOF
	}
	n := len(p.b) - p.pos
	if n > len(dst) {
		n = len(dst)
	}
	if p.chunk > 0 && n > p.chunk {
		n = p.chunk
	}
	copy(dst, p.b[p.pos:p.pos+n])
	p.pos += n
	if p.eofWith && p.pos >= len(p.b) {
		return n, io.EOF
	}
	return n, nil
}

// ---------------------------------------------------------------------------------------
// One request execution + oracle.

type c55doResult struct {
	panicked bool
	order    string // decoded names joined by NUL, in stream order
	decoded  bool
}

func c55pairClass(k, v string) string {
	if 8+len(k)+len(v) > maxWrite {
		return "pair-over-maxWrite"
	}
	return "pair-within-maxWrite"
}

func c55sizes(m map[string]string) string {
	ks := make([]string, 0, len(m))
	for k := range m {
		ks = append(ks, k)
	}
	sort.Slice(ks, func(i, j int) bool {
		if len(ks[i]) != len(ks[j]) {
			return len(ks[i]) < len(ks[j])
		}
		return ks[i] < ks[j]
	})
	var sb strings.Builder
	for i, k := range ks {
		if i >= 6 {
			fmt.Fprintf(&sb, " ...(%d pairs)", len(ks))
			break
		}
		fmt.Fprintf(&sb, " (name %d bytes, value %d bytes)", len(k), len(m[k]))
	}
	return sb.String()
}

// c55runDo executes the real Do and judges the bytes written. judgeBody=false leaves the STDIN
// stream unjudged (reader behaviours the statement is silent about) and only reports whether it
// was equal in the outcome class.
func c55runDo(r *vk.Run, id string, params map[string]string, body io.Reader, wantBody []byte, readerKind string, judgeBody bool) c55doResult {
	var res c55doResult
	conn := &c55conn{out: c55outScratch[:0]}
	defer func() { c55outScratch = conn.out[:0] }()
	client := &FCGIClient{rwc: conn, reqId: 1}
	var rd io.Reader
	var doErr error
	panicked, pv := vk.Guard(func() { rd, doErr = client.Do(params, body) })
	r.Add("sum_executions", 1)
	if panicked {
		res.panicked = true
		class := "no-oversize-name"
		for k := range params {
			if len(k) > maxWrite-8 {
				class = "name-over-maxWrite-8"
			}
		}
		r.Outcome("request:panic")
		r.Violation("no-crash:"+class+":panic-in:"+vk.PanicSite(pv), id,
			"FCGIClient.Do panicked for parameters"+c55sizes(params)+": "+pv)
		return res
	}
	if doErr != nil {
		// the conn never fails, so this is a refusal by bfe; the statement is silent about it
		r.Outcome("request:refused")
		return res
	}
	_ = rd
	q := c55DecodeRequest(conn.out)
	if q.err != "" {
		r.Outcome("request:undecodable")
		r.Violation("records:"+q.err, id, fmt.Sprintf("the %d bytes written (%d writes) do not decode as FastCGI records of one Responder request: %s after %d records; parameters%s, body %d bytes via %s",
			len(conn.out), conn.writes, q.err, q.nrec, c55sizes(params), len(wantBody), readerKind))
		return res
	}
	res.decoded = true
	if q.maxPayload > 65535 { // cannot happen with a 16-bit length; kept as the literal clause
		r.Violation("records:payload-over-65535", id, fmt.Sprintf("record payload %d", q.maxPayload))
	}
	if len(q.params) <= 3 {
		ks := make([]string, len(q.params))
		for i, p := range q.params {
			ks[i] = string(p.k)
		}
		res.order = strings.Join(ks, "\x00")
	}
	// parameters: multiset equality
	good := true
	got := map[string][]byte{}
	for _, p := range q.params {
		if _, dup := got[string(p.k)]; dup {
			good = false
			r.Violation("params:pair-duplicated", id, fmt.Sprintf("name of %d bytes decoded twice; parameters%s", len(p.k), c55sizes(params)))
		}
		got[string(p.k)] = p.v
		if _, ok := params[string(p.k)]; !ok {
			good = false
			r.Violation("params:pair-extra", id, fmt.Sprintf("decoded a pair (name %d bytes %s, value %d bytes) that is not in the map; parameters%s",
				len(p.k), vk.Q(c55short(string(p.k))), len(p.v), c55sizes(params)))
		}
	}
	for k, v := range params {
		g, ok := got[k]
		switch {
		case !ok:
			good = false
			r.Violation("params:"+c55pairClass(k, v)+":pair-missing", id, fmt.Sprintf("pair (name %d bytes, value %d bytes) not decoded; parameters%s", len(k), len(v), c55sizes(params)))
		case string(g) == v:
		case len(g) < len(v) && v[:len(g)] == string(g):
			good = false
			r.Violation("params:"+c55pairClass(k, v)+":value-truncated", id, fmt.Sprintf("value of %d bytes for a name of %d bytes decodes to only its first %d bytes; parameters%s",
				len(v), len(k), len(g), c55sizes(params)))
		default:
			good = false
			r.Violation("params:"+c55pairClass(k, v)+":value-differs", id, fmt.Sprintf("value of %d bytes for a name of %d bytes decodes to %d different bytes; parameters%s",
				len(v), len(k), len(g), c55sizes(params)))
		}
	}
	if good {
		r.Outcome("request:params-exact")
	} else {
		r.Outcome("request:params-differ")
	}
	// body
	if bytes.Equal(q.stdin, wantBody) {
		r.Outcome("request:body-exact")
	} else if !judgeBody {
		r.Outcome("request:body-differs-unjudged:" + readerKind)
	} else {
		kind := "differs"
		switch {
		case len(q.stdin) < len(wantBody) && bytes.HasPrefix(wantBody, q.stdin):
			kind = "truncated"
		case len(q.stdin) > len(wantBody) && bytes.HasPrefix(q.stdin, wantBody):
			kind = "extended"
		}
		r.Outcome("request:body-" + kind)
		r.Violation("stdin:"+c55readerClass(readerKind)+":"+kind, id, fmt.Sprintf("STDIN stream decodes to %d bytes, body has %d bytes (reader %s); parameters%s",
			len(q.stdin), len(wantBody), readerKind, c55sizes(params)))
	}
	if q.nrec > 4 {
		r.Outcome("request:multi-record-stream")
	}
	return res
}

func c55readerClass(kind string) string {
	if i := strings.IndexByte(kind, ':'); i >= 0 {
		return kind[:i]
	}
	return kind
}

func c55short(s string) string {
	if len(s) > 24 {
		return s[:12] + "..." + s[len(s)-8:]
	}
	return s
}

// c55runOrders repeats the case until the PARAMS stream carried the pairs in the order `keys`
// (the insertion order). Go's runtime starts the iteration of a small map at a random slot, so a
// single run emits a rotation of the insertion order; the enumeration above it lists every ordered
// tuple of pair shapes, hence forcing the insertion order once per case covers every emission
// order of every multiset of shapes. Every run is judged, whatever its order.
func c55runOrders(r *vk.Run, id string, params map[string]string, keys []string, body []byte) {
	for attempt := 0; attempt < 60; attempt++ {
		var rd io.Reader
		if body != nil {
			rd = bytes.NewReader(body)
		}
		res := c55runDo(r, id, params, rd, body, "bytes.Reader", true)
		if res.panicked || !res.decoded {
			return
		}
		if res.order == strings.Join(keys, "\x00") {
			r.Outcome("request:insertion-order-emitted")
			return
		}
		r.Outcome("request:rotated-order-emitted")
	}
	r.Outcome("request:insertion-order-not-seen")
	r.Set("insertion_order_not_seen_case", id)
}

// ---------------------------------------------------------------------------------------
// Responder scripts.

type c55sym struct {
	name    string
	typ     uint8
	content string
	pad     int // -1 = natural (-len & 7)
}

func c55encRec(typ uint8, id uint16, content []byte, pad int) []byte {
	if pad < 0 {
		pad = -len(content) & 7
	}
	b := make([]byte, 8, 8+len(content)+pad)
	b[0] = 1
	b[1] = typ
	binary.BigEndian.PutUint16(b[2:], id)
	binary.BigEndian.PutUint16(b[4:], uint16(len(content)))
	b[6] = byte(pad)
	b = append(b, content...)
	for i := 0; i < pad; i++ {
		b = append(b, '#') // padding is deliberately not zero: it must never surface
	}
	return b
}

var c55big = func() string {
	b := make([]byte, 65535)
	for i := range b {
		b[i] = byte('a' + (i*11+i/257)%26)
	}
	return string(b)
}()

var c55sizedCache = map[[2]int]string{}

// c55sizedContent is the content of a sized record: exactly n bytes; a STDOUT record of >= 64
// bytes begins with a complete CGI header block, everything else is a newline-free pattern.
func c55sizedContent(typ uint8, n int) string {
	key := [2]int{int(typ), n}
	if s, ok := c55sizedCache[key]; ok {
		return s
	}
	b := make([]byte, n)
	for i := range b {
		b[i] = byte('A' + (i*13+i/509+int(typ))%26)
	}
	if typ == FCGIStdout && n >= 64 {
		copy(b, "Status: 202 Accepted\r\nX-Sized: yes\r\n\r\n")
	}
	s := string(b)
	c55sizedCache[key] = s
	return s
}

func c55alphabet(thorough bool) []c55sym {
	a := []c55sym{
		{"O:hdrs", FCGIStdout, "Status: 404 Not Found\r\nContent-Type: text/plain\r\nX-A: 1\r\n\r\n", -1},
		{"O:hdr1", FCGIStdout, "Content-Type: text/html\r\nX-", 0},
		{"O:hdr2", FCGIStdout, "B: 2\r\n\r\n", -1},
		{"O:body", FCGIStdout, "hello", -1},
		{"O:body8", FCGIStdout, "WORLD!\n\n", 255},
		{"O:empty", FCGIStdout, "", 0},
		{"E:text", FCGIStderr, "PHP message: oops\n", -1},
		{"E:hdrlike", FCGIStderr, "X-Injected: evil\r\n", 0},
		{"E:empty", FCGIStderr, "", 0},
	}
	if thorough {
		a = append(a,
			c55sym{"O:big", FCGIStdout, c55big, 255},
			c55sym{"E:crlfcrlf", FCGIStderr, "\r\n\r\n", -1},
			c55sym{"O:lf-hdrs", FCGIStdout, "Status: 201\nX-C: 3\n\n", 7},
		)
	}
	return a
}

const (
	c55termEnd = iota
	c55termEndTrail
	c55termEOF
	c55termCut
	c55numTerm
)

var c55termName = []string{"END", "END+more", "EOF", "CUT"}

// c55script renders a record sequence. retype=true turns every STDERR record into STDOUT (used
// only to classify a mismatch, never to judge). Returns the bytes, S (STDOUT contents that count)
// and whether a non-empty STDERR record precedes the terminator.
// An END_REQUEST symbol inside the sequence (family RS) ends the reply: later records are on the
// wire but count for nothing (ended=true).
func c55script(alpha []c55sym, seq []int, term int, retype bool) (raw []byte, S []byte, hasErr bool, ended bool) {
	for _, i := range seq {
		s := alpha[i]
		typ := s.typ
		if typ == FCGIStderr {
			if len(s.content) > 0 && !ended {
				hasErr = true
			}
			if retype {
				typ = FCGIStdout
			}
		}
		raw = append(raw, c55encRec(typ, 1, []byte(s.content), s.pad)...)
		if typ == FCGIStdout && !ended {
			S = append(S, s.content...)
		}
		if typ == FCGIEndRequest {
			ended = true
		}
	}
	endBody := []byte{0, 0, 0, 0, 0, 0, 0, 0}
	switch term {
	case c55termEnd:
		raw = append(raw, c55encRec(FCGIEndRequest, 1, endBody, 0)...)
	case c55termEndTrail:
		raw = append(raw, c55encRec(FCGIEndRequest, 1, endBody, 0)...)
		raw = append(raw, c55encRec(FCGIStdout, 1, []byte("AFTER-END"), -1)...)
		raw = append(raw, c55encRec(FCGIStderr, 1, []byte("after-end"), -1)...)
	case c55termEOF:
	case c55termCut:
		if len(raw) >= 3 {
			raw = raw[:len(raw)-3]
		}
	}
	return
}

// c55refResponse is the boring reference for a CGI response document: header lines
// "token: value" up to the first empty line, then the body. ok=false: S does not start with a
// complete, plain header block (then the response is not judged).
func c55refResponse(S []byte) (ok bool, status int, hdr map[string][]string, body []byte) {
	hdr = map[string][]string{}
	rest := S
	for {
		i := bytes.IndexByte(rest, '\n')
		if i < 0 {
			return false, 0, nil, nil
		}
		line := rest[:i]
		rest = rest[i+1:]
		if len(line) > 0 && line[len(line)-1] == '\r' {
			line = line[:len(line)-1]
		}
		if len(line) == 0 {
			break
		}
		j := bytes.IndexByte(line, ':')
		if j <= 0 {
			return false, 0, nil, nil
		}
		for _, c := range line[:j] {
			if !('a' <= c && c <= 'z' || 'A' <= c && c <= 'Z' || '0' <= c && c <= '9' || c == '-') {
				return false, 0, nil, nil
			}
		}
		for _, c := range line[j+1:] {
			if c < 0x20 && c != '\t' || c >= 0x7f {
				return false, 0, nil, nil
			}
		}
		k := stdtextproto.CanonicalMIMEHeaderKey(string(line[:j]))
		hdr[k] = append(hdr[k], strings.Trim(string(line[j+1:]), " \t"))
	}
	status = 200
	if st := hdr["Status"]; len(st) > 0 && st[0] != "" {
		f := strings.SplitN(st[0], " ", 2)
		n, err := strconv.Atoi(f[0])
		if err != nil {
			return false, 0, nil, nil
		}
		status = n
	}
	return true, status, hdr, rest
}

func c55hdrString(h map[string][]string) string {
	ks := make([]string, 0, len(h))
	for k := range h {
		ks = append(ks, k)
	}
	sort.Strings(ks)
	var sb strings.Builder
	for _, k := range ks {
		fmt.Fprintf(&sb, "%s=%q;", k, h[k])
	}
	return sb.String()
}

// c55replyReader returns what FCGIClient.Do returns after the request was written. Do allocates
// two 64 KiB write buffers per call, so the reply families build the reader directly once
// c55checkDoReader has confirmed (per process) that Do returns exactly &streamReader{c: client}.
var c55doReaderChecked bool

func c55replyReader(client *FCGIClient) (io.Reader, error) {
	if !c55doReaderChecked {
		return client.Do(map[string]string{"REQUEST_METHOD": "GET"}, nil)
	}
	return &streamReader{c: client}, nil
}

func c55checkDoReader() {
	client := &FCGIClient{rwc: &c55conn{}, reqId: 1}
	rd, err := client.Do(map[string]string{"REQUEST_METHOD": "GET"}, nil)
	sr, ok := rd.(*streamReader)
	c55doReaderChecked = err == nil && ok && sr.c == client && len(sr.buf) == 0
}

// c55readStream = level 1: everything the reader returned by Do delivers.
func c55readStream(raw []byte, frag, rdsize int) (out []byte, errs string, panicked bool, pv string) {
	panicked, pv = vk.Guard(func() {
		conn := &c55conn{in: raw, frag: frag}
		client := &FCGIClient{rwc: conn, reqId: 1}
		rd, err := c55replyReader(client)
		if err != nil {
			errs = "do:" + err.Error()
			return
		}
		buf := make([]byte, rdsize)
		zero := 0
		for {
			n, err := rd.Read(buf)
			out = append(out, buf[:n]...)
			if err == io.EOF {
				errs = ""
				return
			}
			if err != nil {
				errs = err.Error()
				return
			}
			if n == 0 {
				zero++
				if zero > 10000 {
					errs = "no-progress"
					return
				}
			} else {
				zero = 0
			}
		}
	})
	return
}

type c55resp struct {
	err    string
	status int
	hdr    string
	body   []byte
	berr   string
}

func (x c55resp) String() string {
	return fmt.Sprintf("err=%q status=%d hdr=%s body=%s bodyerr=%q", x.err, x.status, x.hdr, vk.Q(c55short(string(x.body))), x.berr)
}

// c55readResp = level 2: the real readResponse over the real stream reader, as RoundTrip does.
func c55readResp(raw []byte, frag int) (x c55resp, panicked bool, pv string) {
	panicked, pv = vk.Guard(func() {
		conn := &c55conn{in: raw, frag: frag}
		client := &FCGIClient{rwc: conn, reqId: 1}
		rd, err := c55replyReader(client)
		if err != nil {
			x.err = "do:" + err.Error()
			return
		}
		resp, err := readResponse(rd, &http.Request{Method: "GET"})
		if err != nil {
			x.err = err.Error()
			return
		}
		x.status = resp.StatusCode
		x.hdr = c55hdrString(map[string][]string(resp.Header))
		b, err := ioutil.ReadAll(resp.Body)
		x.body = b
		if err != nil {
			x.berr = err.Error()
		}
	})
	return
}

type c55cfg struct{ frag, rd int }

// c55opt: cut >= 0 delivers only the first cut bytes of the reply (conn EOF inside a record);
// lenient marks a reply the statement is silent about (e.g. END_REQUEST with a body that is not 8
// bytes): then only "no crash" and "nothing but STDOUT bytes" are demanded.
type c55opt struct {
	cut     int
	lenient bool
}

var c55noOpt = c55opt{cut: -1}

func c55runScript(r *vk.Run, id string, alpha []c55sym, seq []int, term int, l1 []c55cfg, l2 []int, opt c55opt) {
	raw, S, hasErr, ended := c55script(alpha, seq, term, false)
	complete := (term == c55termEnd || term == c55termEndTrail || ended) && !opt.lenient
	if opt.cut >= 0 && opt.cut < len(raw) {
		raw = raw[:opt.cut]
		complete = false
	}
	input := "no-stderr"
	if hasErr {
		input = "stderr-record"
	}
	names := make([]string, len(seq))
	for i, s := range seq {
		names[i] = alpha[s].name
	}
	desc := strings.Join(names, " ") + " " + c55termName[term]
	if opt.cut >= 0 {
		desc += fmt.Sprintf(" (conn closed after %d bytes)", opt.cut)
	}
	var rawRetyped []byte
	retyped := func() []byte {
		if rawRetyped == nil {
			rawRetyped, _, _, _ = c55script(alpha, seq, term, true)
			if opt.cut >= 0 && opt.cut < len(rawRetyped) {
				rawRetyped = rawRetyped[:opt.cut]
			}
		}
		return rawRetyped
	}
	// level 1
	for _, c := range l1 {
		out, errs, panicked, pv := c55readStream(raw, c.frag, c.rd)
		r.Add("sum_executions", 1)
		if panicked {
			r.Outcome("reply:panic")
			r.Violation("reply-no-crash:"+input+":panic-in:"+vk.PanicSite(pv), id, "reading the reply ["+desc+"] panicked: "+pv)
			continue
		}
		okStream := false
		kind := ""
		switch {
		case complete && errs == "" && bytes.Equal(out, S):
			okStream = true
			r.Outcome("reply:stream-exact")
		case !complete && bytes.HasPrefix(S, out):
			okStream = true
			if errs == "" {
				r.Outcome("reply:cut-short:clean-end")
			} else {
				r.Outcome("reply:cut-short:error")
			}
		case errs != "" && complete:
			kind = "read-error"
		case bytes.HasPrefix(S, out):
			kind = "stdout-lost"
		default:
			kind = "foreign-bytes"
		}
		if okStream {
			continue
		}
		r.Outcome("reply:stream-" + kind)
		sig := "stdout-only:" + input + ":stream:" + kind
		if hasErr {
			o2, e2, p2, _ := c55readStream(retyped(), c.frag, c.rd)
			if !p2 && e2 == errs && bytes.Equal(o2, out) {
				sig = "stdout-only:stderr-record:mixed-into-response"
			}
		}
		r.Violation(sig, id, fmt.Sprintf("reply [%s] (conn fragments %d, read size %d): stream reader delivered %s err=%q; the STDOUT stream is %s",
			desc, c.frag, c.rd, vk.Q(c55short(string(out))), errs, vk.Q(c55short(string(S)))))
	}
	// level 2
	ok, status, hdr, body := c55refResponse(S)
	for _, frag := range l2 {
		x, panicked, pv := c55readResp(raw, frag)
		r.Add("sum_executions", 1)
		if panicked {
			r.Outcome("reply:panic")
			r.Violation("reply-no-crash:"+input+":panic-in:"+vk.PanicSite(pv), id, "readResponse on the reply ["+desc+"] panicked: "+pv)
			continue
		}
		if !ok || !complete {
			// no complete header block in STDOUT, or reply cut short: the statement is silent
			if x.err != "" {
				r.Outcome("response:unjudged:error")
			} else {
				r.Outcome("response:unjudged:built")
			}
			continue
		}
		want := c55resp{status: status, hdr: c55hdrString(hdr), body: body}
		kind := ""
		switch {
		case x.err != "":
			kind = "error"
		case x.status != want.status:
			kind = "status-differs"
		case x.hdr != want.hdr:
			kind = "header-differs"
		case !bytes.Equal(x.body, want.body) || x.berr != "":
			kind = "body-differs"
		}
		if kind == "" {
			r.Outcome("response:exact:status-" + strconv.Itoa(status))
			continue
		}
		r.Outcome("response:" + kind)
		sig := "stdout-only:" + input + ":response:" + kind
		if hasErr {
			x2, p2, _ := c55readResp(retyped(), frag)
			if !p2 && x2.String() == x.String() && bytes.Equal(x2.body, x.body) {
				sig = "stdout-only:stderr-record:mixed-into-response"
			}
		}
		r.Violation(sig, id, fmt.Sprintf("reply [%s] (conn fragments %d): response built is {%s}; from the STDOUT stream alone it is {%s}", desc, frag, x, want))
	}
}

// ---------------------------------------------------------------------------------------

func TestVerifC55(t *testing.T) {
	r := vk.Start(t, "C55")
	defer r.Finish()
	idx := 0
	mine := func() bool { idx++; return r.Mine(idx) }
	stop := false
	expired := func(what string) bool {
		if !stop && r.Expired(what) {
			stop = true
		}
		return stop
	}

	nameLens := []int{0, 1, 127, 128, maxWrite - 9, maxWrite - 8, maxWrite - 7, 65527, 65535, 65536, 70000}
	valLens := []int{0, 1, 127, 128, maxWrite - 8 - 128 - 1, maxWrite - 8 - 128, maxWrite - 8 - 128 + 1,
		maxWrite - 10, maxWrite - 9, maxWrite - 8, maxWrite - 7, maxWrite, 65535, 65536, 70000}
	r.Set("P.nameLens", nameLens)
	r.Set("P.valLens", valLens)

	nontrivialPair := func(n, v int) bool { return n >= 128 || v >= 128 }
	t0 := time.Now()
	mark := func(f string) { t.Logf("family %s done at %.1fs", f, time.Since(t0).Seconds()) }

	// ---- P1: one parameter, full cross product; with and without a body
	for _, nl := range nameLens {
		for _, vl := range valLens {
			if !mine() {
				continue
			}
			id := vk.Key("P1", nl, vl)
			if !r.Case(id) {
				continue
			}
			m := map[string]string{c55name(0, nl): c55value(0, vl)}
			c55runOrders(r, id, m, []string{c55name(0, nl)}, nil)
			c55runOrders(r, id, m, []string{c55name(0, nl)}, c55body(9))
			if nontrivialPair(nl, vl) {
				r.Nontrivial(id)
			}
			if nl == 128 && vl == 128 {
				r.Sample(map[string]interface{}{"case": id, "params": "one pair, name 128 bytes, value 128 bytes"})
			}
		}
	}

	mark("P1")
	// ---- P2: two parameters, full cross product of the pair alphabet
	type pl struct{ n, v int }
	var pairs2 []pl
	n2, v2 := nameLens, valLens
	if !r.Thorough() {
		n2 = []int{0, 1, 127, 128, maxWrite - 8, maxWrite - 7, 70000}
		v2 = []int{0, 1, 127, 128, maxWrite - 8 - 128, maxWrite - 8 - 128 + 1, maxWrite - 8, maxWrite - 7, 65536, 70000}
	}
	r.Set("P2.nameLens", n2)
	r.Set("P2.valLens", v2)
	for _, nl := range n2 {
		for _, vl := range v2 {
			pairs2 = append(pairs2, pl{nl, vl})
		}
	}
	for _, a := range pairs2 {
		if expired("P2") {
			break
		}
		if !mine() {
			continue
		}
		for _, b := range pairs2 {
			if a.n == 0 && b.n == 0 {
				continue // one map cannot hold the empty name twice
			}
			id := vk.Key("P2", a.n, a.v, b.n, b.v)
			if !r.Case(id) {
				continue
			}
			m := map[string]string{}
			m[c55name(0, a.n)] = c55value(0, a.v)
			m[c55name(1, b.n)] = c55value(1, b.v)
			c55runOrders(r, id, m, []string{c55name(0, a.n), c55name(1, b.n)}, nil)
			if nontrivialPair(a.n, a.v) || nontrivialPair(b.n, b.v) {
				r.Nontrivial(id)
			}
		}
	}

	mark("P2")
	// ---- P3: three parameters over a reduced alphabet aimed at record splitting
	n3 := []int{1, 128}
	v3 := []int{0, 127, 128, 30000, maxWrite - 8 - 128, maxWrite - 8, maxWrite - 7, 70000}
	if r.Thorough() {
		n3 = []int{0, 1, 128, maxWrite - 8}
		v3 = []int{0, 1, 127, 128, 30000, 35500, maxWrite - 8 - 128, maxWrite - 9, maxWrite - 8, maxWrite - 7, 70000}
	}
	var pairs3 []pl
	for _, nl := range n3 {
		for _, vl := range v3 {
			pairs3 = append(pairs3, pl{nl, vl})
		}
	}
	r.Set("P3.pairAlphabet", len(pairs3))
	for _, a := range pairs3 {
		for _, b := range pairs3 {
			if expired("P3") {
				break
			}
			if !mine() {
				continue
			}
			for _, c := range pairs3 {
				zeros := 0
				for _, x := range []pl{a, b, c} {
					if x.n == 0 {
						zeros++
					}
				}
				if zeros > 1 {
					continue
				}
				id := vk.Key("P3", a.n, a.v, b.n, b.v, c.n, c.v)
				if !r.Case(id) {
					continue
				}
				m := map[string]string{}
				m[c55name(0, a.n)] = c55value(0, a.v)
				m[c55name(1, b.n)] = c55value(1, b.v)
				m[c55name(2, c.n)] = c55value(2, c.v)
				c55runOrders(r, id, m, []string{c55name(0, a.n), c55name(1, b.n), c55name(2, c.n)}, nil)
				r.Nontrivial(id)
			}
		}
	}

	mark("P3")
	// ---- PM: many equal-sized small parameters
	counts := []int{0, 1, 8, 9, 64, 489, 490, 654, 655, 656, 1311}
	shapes := []pl{{10, 88}, {10, 89}, {120, 7}, {128, 0}, {5, 127}, {5, 128}}
	if r.Thorough() {
		counts = append(counts, 244, 245, 246, 327, 328, 488, 491, 500, 1309, 1310, 1312, 3000)
		shapes = append(shapes, pl{1, 0}, pl{127, 127}, pl{128, 128}, pl{9, 88}, pl{11, 88})
	}
	for _, n := range counts {
		for _, sh := range shapes {
			if !mine() {
				continue
			}
			id := vk.Key("PM", n, sh.n, sh.v)
			if !r.Case(id) {
				continue
			}
			m := map[string]string{}
			for i := 0; i < n; i++ {
				num := strconv.Itoa(i)
				name := c55name(i%7, sh.n)
				name = num + "_" + name
				name = name[:sh.n]
				if len(num)+1 > sh.n {
					name = num // only for tiny shapes; length differs, harmless
				}
				m[name] = c55value(i%5, sh.v)
			}
			for rep := 0; rep < 2; rep++ {
				c55runDo(r, id, m, bytes.NewReader(c55body(3)), c55body(3), "bytes.Reader", true)
			}
			if n >= 2 {
				r.Nontrivial(id)
			}
		}
	}

	mark("PM")
	// ---- B: bodies x reader kinds x parameter maps
	bodySizes := []int{0, 1, 7, 8, maxWrite - 1, maxWrite, maxWrite + 1, 65535, 65536, 2*maxWrite - 1, 2 * maxWrite, 2*maxWrite + 1, 131072}
	if r.Thorough() {
		bodySizes = append(bodySizes, 9, 4096, 65534, 65537, 3*maxWrite-1, 3*maxWrite, 3*maxWrite+1, 400000)
	}
	chunks := []int{0, 4096, maxWrite - 1, maxWrite, maxWrite + 1, 65536}
	if r.Thorough() {
		chunks = append(chunks, 1, 7, 65535)
	}
	r.Set("B.bodySizes", bodySizes)
	pmaps := []map[string]string{
		{},
		{"REQUEST_METHOD": "POST", "CONTENT_LENGTH": "1", "SCRIPT_FILENAME": "/var/www/index.php"},
		{c55name(0, 10): c55value(0, maxWrite-8-10)},
	}
	for _, bs := range bodySizes {
		for pi, pm := range pmaps {
			if !mine() {
				continue
			}
			body := c55body(bs)
			type rk struct {
				kind  string
				mk    func() io.Reader
				judge bool
			}
			kinds := []rk{{"bytes.Reader", func() io.Reader { return bytes.NewReader(body) }, true}}
			if bs == 0 {
				kinds = append(kinds, rk{"nil", func() io.Reader { return nil }, true})
			}
			for _, ch := range chunks {
				ch := ch
				kinds = append(kinds,
					rk{"plain:" + strconv.Itoa(ch), func() io.Reader { return &c55plainReader{b: body, chunk: ch, zeroAt: -1} }, true},
					rk{"eofwith:" + strconv.Itoa(ch), func() io.Reader { return &c55plainReader{b: body, chunk: ch, eofWith: true, zeroAt: -1} }, true})
			}
			// a reader that once answers (0, nil): legal but discouraged; not judged, only observed
			kinds = append(kinds, rk{"zeroread:4096", func() io.Reader { return &c55plainReader{b: body, chunk: 4096, zeroAt: bs / 2} }, false})
			for _, k := range kinds {
				id := vk.Key("B", bs, k.kind, pi)
				if !r.Case(id) {
					continue
				}
				c55runDo(r, id, pm, k.mk(), body, k.kind, k.judge)
				if bs > 0 {
					r.Nontrivial(id)
				}
			}
		}
	}

	mark("B")
	// ---- T: parameter map built by the real buildMetaValsAndMethod + RoundTrip glue
	hn := []int{1, 10, 122, 123, maxWrite - 8 - 5 - 1, maxWrite - 8 - 5, maxWrite - 8 - 5 + 1, 70000}
	hv := []int{0, 1, 127, 128, 60000, maxWrite - 8 - 15, maxWrite - 8 - 15 + 1, 70000}
	for _, nl := range hn {
		for _, vl := range hv {
			if !mine() {
				continue
			}
			id := vk.Key("T", nl, vl)
			if !r.Case(id) {
				continue
			}
			body := c55body(11)
			req := &http.Request{Method: "POST", Proto: "HTTP/1.1", Host: "example.org:8080", RemoteAddr: "10.1.2.3:5555",
				Header: http.Header{}, ContentLength: int64(len(body)), Body: ioutil.NopCloser(bytes.NewReader(body))}
			req.URL, _ = url.Parse("http://127.0.0.1:9000/app/index.php?x=1")
			req.Header["Content-Type"] = []string{"text/plain"}
			hname := "X" + strings.Repeat("a", nl-1)
			req.Header[hname] = []string{c55value(3, vl)}
			var meta map[string]string
			panicked, pv := vk.Guard(func() {
				// the four lines of Transport.RoundTrip before Dial
				buildMetaValsAndMethod(req, "/var/www", map[string]string{"APP_ENV": "prod"})
				meta = map[string]string{}
				for k, vs := range req.Header {
					meta[strings.ToUpper(k)] = strings.Join(vs, ",")
				}
			})
			if panicked {
				r.Violation("no-crash:meta-vars:panic-in:"+vk.PanicSite(pv), id, pv)
				continue
			}
			if meta["HTTP_"+strings.ToUpper(hname)] != c55value(3, vl) {
				r.Outcome("transport:header-not-mapped-as-expected") // not judged: the CGI mapping is outside the statement
			}
			c55runDo(r, id, meta, req.Body, body, "http-body", true)
			r.Nontrivial(id)
			if nl == 10 && vl == 1 {
				ks := make([]string, 0, len(meta))
				for k := range meta {
					ks = append(ks, k)
				}
				sort.Strings(ks)
				r.Sample(map[string]interface{}{"case": id, "meta_var_names": ks})
			}
		}
	}

	mark("T")
	// ---- R: responder record sequences
	c55checkDoReader()
	r.Set("R.reader_built_directly", c55doReaderChecked)
	// ---- RS: responder record sizes at the 16-bit / 8-bit field boundaries.
	// One sized record X(type, contentLength, paddingLength) for type in {STDOUT, STDERR,
	// END_REQUEST}, placed after nothing or after a STDOUT header block and followed by a small
	// STDOUT record; ended by END_REQUEST, END_REQUEST+more, conn EOF, or the conn closing right
	// after X's header / inside X's content / inside X's padding; x conn fragments {whole, 1, 8,
	// 1000 bytes per Read} x read sizes. A sized STDOUT record of >= 64 bytes starts with a CGI
	// header block itself, so the response is judged also when the big record comes first.
	// Thorough adds every ordered pair of sized STDOUT/STDERR records.
	rsCL := []int{0, 1, 7, 8, 65528, 65529, 65534, 65535}
	rsPL := []int{0, 1, 7, 255}
	rsTypes := []uint8{FCGIStdout, FCGIStderr, FCGIEndRequest}
	r.Set("RS.contentLengths", rsCL)
	r.Set("RS.paddingLengths", rsPL)
	rsL1 := []c55cfg{{0, 4096}, {1, 4096}, {8, 1}, {1000, 3}}
	rsL2 := []int{0, 1, 8, 1000}
	hdrsSym := c55alphabet(false)[0]
	tailSym := c55sym{"O:tail", FCGIStdout, "tail-after-sized-record", -1}
	rsSym := func(typ uint8, cl, pl int) c55sym {
		tn := map[uint8]string{FCGIStdout: "O", FCGIStderr: "E", FCGIEndRequest: "END"}[typ]
		return c55sym{fmt.Sprintf("%s:sized(%d+%d)", tn, cl, pl), typ, c55sizedContent(typ, cl), pl}
	}
	for _, typ := range rsTypes {
		for _, cl := range rsCL {
			for _, pl := range rsPL {
				if !mine() {
					continue
				}
				x := rsSym(typ, cl, pl)
				alphaRS := []c55sym{hdrsSym, x, tailSym}
				lenient := typ == FCGIEndRequest && cl != 8
				for pre := 0; pre < 2; pre++ {
					seqRS := []int{1, 2}
					xOff := 0
					if pre == 1 {
						seqRS = []int{0, 1, 2}
						xOff = len(c55encRec(hdrsSym.typ, 1, []byte(hdrsSym.content), hdrsSym.pad))
					}
					type ending struct {
						name string
						term int
						cut  int
					}
					ends := []ending{{"END", c55termEnd, -1}, {"END+more", c55termEndTrail, -1}, {"EOF", c55termEOF, -1},
						{"cut-after-header", c55termEOF, xOff + 8}}
					if cl > 0 {
						ends = append(ends, ending{"cut-in-content", c55termEOF, xOff + 8 + (cl+1)/2})
					}
					if pl > 0 {
						ends = append(ends, ending{"cut-in-padding", c55termEOF, xOff + 8 + cl + pl/2})
					}
					for _, e := range ends {
						id := vk.Key("RS", typ, cl, pl, pre, e.name)
						if !r.Case(id) {
							continue
						}
						c55runScript(r, id, alphaRS, seqRS, e.term, rsL1, rsL2, c55opt{cut: e.cut, lenient: lenient})
						if cl+pl > 255 {
							r.Nontrivial(id)
						}
					}
				}
			}
		}
	}
	mark("RS")
	if r.Thorough() {
		type sz struct {
			typ    uint8
			cl, pl int
		}
		var shapes []sz
		for _, typ := range []uint8{FCGIStdout, FCGIStderr} {
			for _, cl := range []int{0, 1, 8, 65528, 65529, 65535} {
				for _, pl := range rsPL {
					shapes = append(shapes, sz{typ, cl, pl})
				}
			}
		}
		for _, a := range shapes {
			for _, b := range shapes {
				if expired("RS2") {
					break
				}
				if !mine() {
					continue
				}
				alphaRS := []c55sym{hdrsSym, rsSym(a.typ, a.cl, a.pl), rsSym(b.typ, b.cl, b.pl), tailSym}
				for _, term := range []int{c55termEnd, c55termCut} {
					id := vk.Key("RS2", a.typ, a.cl, a.pl, b.typ, b.cl, b.pl, c55termName[term])
					if !r.Case(id) {
						continue
					}
					c55runScript(r, id, alphaRS, []int{0, 1, 2, 3}, term, []c55cfg{{0, 4096}, {8, 1}, {1000, 3}}, []int{0, 1000}, c55noOpt)
					r.Nontrivial(id)
				}
			}
		}
		mark("RS2")
	}
	// quick: base alphabet up to length 4; thorough: base alphabet up to length 6 and the
	// extended alphabet (64 KiB record, STDERR CRLFCRLF, bare-LF header block) up to length 4
	type rfam struct {
		tag    string
		alpha  []c55sym
		maxLen int
	}
	fams := []rfam{{"R", c55alphabet(false), r.Pick(4, 6)}}
	if r.Thorough() {
		fams = append(fams, rfam{"RX", c55alphabet(true), 4})
	}
	for _, fam := range fams {
		alpha, maxLen := fam.alpha, fam.maxLen
		names := make([]string, len(alpha))
		for i, s := range alpha {
			names[i] = s.name
		}
		r.Set(fam.tag+".alphabet", names)
		r.Set(fam.tag+".maxLen", maxLen)
		l1 := []c55cfg{{0, 4096}, {1, 4096}, {5, 1}, {0, 3}}
		l2 := []int{0, 1, 5}
		var seq []int
		var walk func(depth int)
		walk = func(depth int) {
			if expired("R") {
				return
			}
			// sequences of length >= 2 belong to the shard owning their first two symbols (filtered
			// below); shorter ones are owned by an index of their own
			run := true
			switch len(seq) {
			case 0:
				run = r.Mine(7)
			case 1:
				run = r.Mine(seq[0] + 11)
			}
			if fam.tag == "RX" {
				// sequences over the base symbols alone are already in family R
				ext := false
				for _, x := range seq {
					if x >= len(fams[0].alpha) {
						ext = true
					}
				}
				run = run && ext
			}
			if run {
				for term := 0; term < c55numTerm; term++ {
					if term == c55termCut && len(seq) == 0 {
						continue
					}
					id := fam.tag + "|" + vk.IntsString(seq) + "|" + c55termName[term]
					if !r.Case(id) {
						continue
					}
					big := 0
					for _, s := range seq {
						if len(alpha[s].content) > 60000 {
							big++
						}
					}
					cl1, cl2 := l1, l2
					if big > 0 {
						// one-byte fragments over 64 KiB records cost too much: keep whole and 5-byte ones
						cl1 = []c55cfg{{0, 4096}, {5, 1000}, {0, 3}}
						cl2 = []int{0, 4093}
					}
					c55runScript(r, id, alpha, seq, term, cl1, cl2, c55noOpt)
					nOut := 0
					for _, s := range seq {
						if alpha[s].typ == FCGIStdout && len(alpha[s].content) > 0 {
							nOut++
						}
					}
					if len(seq) >= 2 && nOut >= 1 {
						r.Nontrivial(id)
					}
					if len(seq) == 3 && seq[0] == 0 && seq[1] == 6 && seq[2] == 3 && term == 0 {
						r.Sample(map[string]interface{}{"case": id, "records": "STDOUT(headers) STDERR(text) STDOUT(body) END_REQUEST"})
					}
				}
			}
			if depth == maxLen {
				return
			}
			for s := range alpha {
				if depth == 1 {
					// shard by the first two symbols
					if !r.Mine(seq[0]*len(alpha) + s + 101) {
						continue
					}
				}
				seq = append(seq, s)
				walk(depth + 1)
				seq = seq[:len(seq)-1]
			}
		}
		walk(0)
		mark(fam.tag)
	}
}
