//go:build verif

package bal_gslb

// C05 — balancer calls are total and terminate under concurrent change (entry point and the
// BalanceGslb seam; the BalanceRR seam and the shared oracle live in
// bfe_balance/bal_slb/c05_slb_verif.go).
//
// BalanceGslb seam: the real BalanceGslb over real SubClusters / BalanceRR / BfeBackend runs
// under the vsched controlled scheduler in the three production modes (WRR -> WrrSmooth, WLC ->
// WlcSmooth, session sticky -> WrrSticky). Threads: B1/B2 Balance(req), F availability flips
// (SetAvail / OnFail / OnSuccess), U one of Reload / BackendReload / SetSlowStart /
// SetGslbBasic (and the Reload+BackendReload pair of BalTableReload).

import (
	"fmt"
	"math/rand"
	"net"
	"strings"
	"testing"

	"github.com/baidu/go-lib/web-monitor/metrics"

	"github.com/bfenetworks/bfe/bfe_balance/backend"
	"github.com/bfenetworks/bfe/bfe_balance/bal_slb"
	"github.com/bfenetworks/bfe/bfe_basic"
	"github.com/bfenetworks/bfe/bfe_config/bfe_cluster_conf/cluster_conf"
	"github.com/bfenetworks/bfe/bfe_config/bfe_cluster_conf/cluster_table_conf"
	"github.com/bfenetworks/bfe/bfe_config/bfe_cluster_conf/gslb_conf"
	"github.com/bfenetworks/bfe/bfe_http"
	"github.com/bfenetworks/bfe/verifkit/vk"
	"github.com/bfenetworks/bfe/verifkit/vsched"
)

const c05RetryMax = 1

type c05g struct {
	shape string // "2": {s1:1,s2:1,BH:0}  "1": {s1:1,s2:0,BH:0} (single)  "b": {s1:1,s2:0,BH:1}
	mode  string // WRR WLC STICKY
	cross int    // CrossRetry
	init  string // d<i> backend i starts unavailable, r<i> restarted flag, S slow start on, Q<c> a rejected Reload(conf c) happened before
	retry [2]int // RetryTime of the requests of B1 / B2
	bal   [2]int // calls of B1 / B2
	flip  string // over backends 0=s1/a0 1=s1/a1 2=s2/c0
	upd   string
}

func (s c05g) String() string {
	return fmt.Sprintf("gslb %s shape=%s cross=%d init=%q retry=%v bal=%v flip=%q upd=%q", s.mode, s.shape, s.cross, s.init, s.retry, s.bal, s.flip, s.upd)
}

func c05bc(name, addr string, w int) *cluster_table_conf.BackendConf {
	port := 80
	return &cluster_table_conf.BackendConf{Name: &name, Addr: &addr, Port: &port, Weight: &w}
}

func c05gslbConf(shape string) gslb_conf.GslbClusterConf {
	switch shape {
	case "2":
		return gslb_conf.GslbClusterConf{"s1": 1, "s2": 1, "GSLB_BLACKHOLE": 0}
	case "1":
		return gslb_conf.GslbClusterConf{"s1": 1, "s2": 0, "GSLB_BLACKHOLE": 0}
	case "b":
		return gslb_conf.GslbClusterConf{"s1": 1, "s2": 0, "GSLB_BLACKHOLE": 1}
	}
	panic("shape")
}

func c05backends0() cluster_table_conf.ClusterBackend {
	return cluster_table_conf.ClusterBackend{
		"s1": {c05bc("a0", "10.1.0.2", 1), c05bc("a1", "10.1.0.1", 1)},
		"s2": {c05bc("c0", "10.2.0.1", 1)},
	}
}

func c05basic(mode string, cross int) cluster_conf.GslbBasicConf {
	rm := c05RetryMax
	strategy := cluster_conf.ClientIpOnly
	sticky := mode == "STICKY"
	bm := cluster_conf.BalanceModeWrr
	if mode == "WLC" {
		bm = cluster_conf.BalanceModeWlc
	}
	return cluster_conf.GslbBasicConf{CrossRetry: &cross, RetryMax: &rm,
		HashConf: &cluster_conf.HashConf{HashStrategy: &strategy, SessionSticky: &sticky}, BalanceMode: &bm}
}

func c05req(ip string, retry int) *bfe_basic.Request {
	req := new(bfe_basic.Request)
	req.HttpRequest = new(bfe_http.Request)
	req.RemoteAddr = &net.TCPAddr{IP: net.ParseIP(ip), Port: 80}
	req.ClientAddr = req.RemoteAddr
	req.RetryTime = retry
	return req
}

// c05reloadConf builds the gslb conf of one Reload / ReloadAll step. w - x are accepted by the
// balancer; 0 e s d are REJECTED by it (total weight 0: Reload returns an error).
func c05reloadConf(shape string, arg byte) gslb_conf.GslbClusterConf {
	switch arg {
	case 'w': // all weight moves from s1 to s2 (the cluster becomes / stays single on s2)
		g := c05gslbConf(shape)
		g["s1"], g["s2"] = 0, 1
		return g
	case '-': // s2 dropped (released)
		return gslb_conf.GslbClusterConf{"s1": 1, "GSLB_BLACKHOLE": 0}
	case 'x': // s2 replaced by a new, still empty s3
		return gslb_conf.GslbClusterConf{"s1": 1, "s3": 1, "GSLB_BLACKHOLE": 0}
	case '0': // rejected: same sub-clusters, every weight 0
		g := c05gslbConf(shape)
		for k := range g {
			g[k] = 0
		}
		return g
	case 'e': // rejected: empty conf
		return gslb_conf.GslbClusterConf{}
	case 's': // rejected: list shrunk to s1 with weight 0
		return gslb_conf.GslbClusterConf{"s1": 0}
	case 'd': // rejected: drops s1 (the only weighted sub-cluster of shapes 1 and b), rest weight 0
		return gslb_conf.GslbClusterConf{"s2": 0, "GSLB_BLACKHOLE": 0}
	}
	panic("c05reloadConf")
}

func c05rejected(arg byte) bool { return strings.IndexByte("0esd", arg) >= 0 }

// c05gUpd performs one reload script on bal.
func c05gUpd(bal *BalanceGslb, s c05g) {
	for i := 0; i+1 < len(s.upd); i += 2 {
		op, arg := s.upd[i], s.upd[i+1]
		switch op {
		case 'R':
			bal.Reload(c05reloadConf(s.shape, arg))
		case 'A': // ReloadAll: gslb conf + backend table in one step
			bal.ReloadAll(c05reloadConf(s.shape, arg), c05backends0())
		case 'B':
			var cb cluster_table_conf.ClusterBackend
			switch arg {
			case '-':
				cb = cluster_table_conf.ClusterBackend{"s1": {c05bc("a1", "10.1.0.1", 1)}, "s2": {c05bc("c0", "10.2.0.1", 1)}}
			case '+':
				cb = c05backends0()
				cb["s1"] = append(cb["s1"], c05bc("a2", "10.1.0.0", 2))
			case 'x':
				cb = cluster_table_conf.ClusterBackend{"s1": {c05bc("n0", "10.1.1.1", 1)}, "s2": {c05bc("n1", "10.2.1.1", 1)}}
			case 's': // backends for the new sub-cluster s3 (after Rx)
				cb = c05backends0()
				cb["s3"] = cluster_table_conf.SubClusterBackend{c05bc("e0", "10.3.0.1", 1)}
			}
			bal.BackendReload(cb)
		case 'S':
			t := 0
			if arg == '1' {
				t = bal_slb.C05BigSlowStart
			}
			bal.SetSlowStart(cluster_conf.BackendBasic{SlowStartTime: &t})
		case 'G':
			switch arg {
			case 'l':
				bal.SetGslbBasic(c05basic("WLC", s.cross))
			case 's':
				bal.SetGslbBasic(c05basic("STICKY", s.cross))
			case 'r':
				bal.SetGslbBasic(c05basic("WRR", 1-s.cross))
			}
		}
	}
}

func c05gFresh(s c05g) (*BalanceGslb, []*backend.BfeBackend) {
	bal := NewBalanceGslb("cluster")
	if err := bal.Init(c05gslbConf(s.shape)); err != nil {
		panic(err)
	}
	bal.BackendInit(c05backends0())
	bal.SetGslbBasic(c05basic(s.mode, s.cross))
	var bs []*backend.BfeBackend
	for _, name := range []string{"s1", "s2"} {
		for _, sub := range bal.subClusters {
			if sub.Name == name {
				bs = append(bs, sub.backends.C05Backends()...)
			}
		}
	}
	for i := 0; i < len(s.init); i++ {
		switch s.init[i] {
		case 'd':
			i++
			bs[s.init[i]-'0'].SetAvail(false)
		case 'r':
			i++
			bs[s.init[i]-'0'].SetRestart(true)
		case 'S':
			t := bal_slb.C05BigSlowStart
			bal.SetSlowStart(cluster_conf.BackendBasic{SlowStartTime: &t})
		case 'Q': // a reload the balancer rejects happened before (sequentially)
			i++
			if err := bal.Reload(c05reloadConf(s.shape, s.init[i])); err == nil {
				panic("c05: reload expected to be rejected was accepted")
			}
		}
	}
	return bal, bs
}

func c05gState(bal *BalanceGslb) string {
	var sb strings.Builder
	fmt.Fprintf(&sb, "tw%d single=%v avail=%d %s/%d/%d/%v", bal.totalWeight, bal.single, bal.avail, bal.BalanceMode, bal.retryMax, bal.crossRetry, *bal.hashConf.SessionSticky)
	for _, sub := range bal.subClusters {
		fmt.Fprintf(&sb, " [%s w%d %s]", sub.Name, sub.weight, sub.backends.C05State())
	}
	return sb.String()
}

func c05gRun(s c05g, ch *vk.Chooser, horizon int) (vsched.Outcome, []*bal_slb.C05Call, *BalanceGslb) {
	rand.Seed(1)
	bal_slb.C05SetFailNum(bal_slb.C05Threshold(s.flip))
	bal, bs := c05gFresh(s)
	calls := make([]*bal_slb.C05Call, s.bal[0]+s.bal[1])
	for i := range calls {
		calls[i] = &bal_slb.C05Call{}
	}
	ips := []string{"1.1.1.1", "1.1.1.2"}
	out := vsched.Run(ch, horizon, func() {
		// thread "main" is balancer B1; B2 / F / U are started first
		if n := s.bal[1]; n > 0 {
			mine := calls[s.bal[0]:]
			vsched.Go("B2", func() {
				for _, c := range mine {
					b, err := bal.Balance(c05req(ips[1], s.retry[1]))
					c.Backend, c.Err, c.Done = b, err, true
				}
			})
		}
		if s.flip != "" {
			vsched.Go("F", func() { bal_slb.C05Flip(s.flip, bs) })
		}
		if s.upd != "" {
			vsched.Go("U", func() { c05gUpd(bal, s) })
		}
		for _, c := range calls[:s.bal[0]] {
			b, err := bal.Balance(c05req(ips[0], s.retry[0]))
			c.Backend, c.Err, c.Done = b, err, true
		}
	})
	return out, calls, bal
}

type c05gpass struct {
	name  string
	bound int
	scns  []c05g
}

// c05gPasses builds the scenario families (same thread layouts A-D as at the BalanceRR seam).
func c05gPasses(thorough bool) []c05gpass {
	type cfg struct {
		shape string
		cross int
		init  string
		retry int
	}
	cfgs := []cfg{
		{"2", 1, "", 0},     // two weighted sub-clusters, in-cluster selection
		{"2", 1, "d0d1", 0}, // s1 all down: in-cluster fails, cross-cluster retry
		{"2", 0, "d0d1", 0}, // s1 all down, cross retry disabled
		{"1", 1, "", 0},     // single weighted sub-cluster
		{"b", 1, "", 0},     // weighted blackhole
		{"2", 1, "", 2},     // request already beyond RetryMax: straight to cross-cluster
		{"2", 1, "", 3},     // beyond RetryMax+CrossRetry
		{"2", 1, "Sr0", 0},  // slow start on, a0 flagged restarted
		{"1", 1, "Qs", 0},   // a rejected reload (shrunk list, weight 0) happened before; single mode
		{"2", 1, "Qe", 0},   // a rejected reload (empty conf) happened before; hash mode
		{"2", 1, "Q0", 0},   // a rejected reload (all weights 0) happened before
	}
	flips := []string{"d0d1", "f0f1", "d2", "d0u0"}
	// reload scripts; R0 Re Rs Rd As Ae use confs the balancer rejects
	upds := []string{"R-", "Rx", "Rw", "B-", "B+", "S1B+", "Gs", "RxBs", "Rs", "Re", "RsR-", "As", "R0Rw", "RdB-"}
	nQuickCfgs, quickUpds := len(cfgs), map[string]bool{}
	for _, u := range upds {
		quickUpds[u] = true
	}
	if thorough {
		cfgs = append(cfgs, cfg{"b", 1, "Qd", 0}, cfg{"1", 1, "Qe", 0}, cfg{"2", 1, "Qs", 0}, cfg{"1", 0, "d0d1", 0}, cfg{"b", 0, "d0d1", 0}, cfg{"1", 1, "d0d1", 0}, cfg{"2", 0, "", 2}, cfg{"1", 1, "Sr0", 0}, cfg{"2", 1, "d2", 0}, cfg{"2", 1, "d0d1d2", 0})
		flips = []string{"d0d1", "f0f1", "d2", "d0u0", "d0", "f0s0", "2f0f0", "d0d1d2"}
		upds = []string{"R-", "Rx", "Rw", "B-", "B+", "S1B+", "Gs", "RxBs", "Bx", "S0", "S1", "Gl", "Gr", "R-B+",
			"Rs", "Re", "RsR-", "As", "R0Rw", "RdB-", "R0", "Rd", "Ae", "A-", "ReR-", "RsAx"}
	}
	var a, b, c, c1, d, core []c05g
	add := func(l *[]c05g, s c05g) {
		if s.mode == "STICKY" && (strings.Contains(s.init, "S") || strings.Contains(s.upd, "S")) {
			return // slow start is not applied in sticky mode
		}
		*l = append(*l, s)
	}
	for _, m := range []string{"WRR", "WLC", "STICKY"} {
		for ci, cf := range cfgs {
			g := c05g{shape: cf.shape, mode: m, cross: cf.cross, init: cf.init, retry: [2]int{cf.retry, 0}}
			for i, fl := range flips {
				s := g
				s.bal, s.flip, s.upd = [2]int{2, 0}, fl, upds[i%len(upds)]
				add(&a, s)
			}
			for i, up := range upds {
				s := g
				s.bal, s.flip, s.upd = [2]int{2, 0}, flips[(i+1)%len(flips)], up
				add(&a, s)
			}
			for _, fl := range flips {
				s := g
				s.bal, s.flip = [2]int{1, 1}, fl
				add(&b, s)
			}
			for _, up := range upds {
				s := g
				s.bal, s.upd = [2]int{1, 1}, up
				if ci < nQuickCfgs && quickUpds[up] {
					add(&c, s)
				} else {
					add(&c1, s) // thorough-only configurations / scripts: lower bound
				}
			}
			if thorough && cf.retry == 0 && cf.shape == "2" {
				for _, fl := range []string{"d0d1", "f0f1"} {
					for _, up := range []string{"R-", "B-", "RxBs"} {
						s := g
						s.bal, s.flip, s.upd = [2]int{1, 1}, fl, up
						add(&d, s)
					}
				}
			}
		}
		for _, in := range []string{"", "d0d1"} {
			g := c05g{shape: "2", mode: m, cross: 1, init: in}
			s := g
			s.bal, s.flip = [2]int{1, 1}, "d0d1"
			add(&core, s)
			s = g
			s.bal, s.upd = [2]int{1, 1}, "B-"
			add(&core, s)
			s = g
			s.bal, s.flip, s.upd = [2]int{2, 0}, "d2", "R-"
			add(&core, s)
		}
	}
	if !thorough {
		return []c05gpass{{"gslb-A@1", 1, a}, {"gslb-B@1", 1, b}, {"gslb-C@1", 1, c}, {"gslb-core@2", 2, core}}
	}
	return []c05gpass{{"gslb-A@1", 1, a}, {"gslb-B@2", 2, b}, {"gslb-C@2", 2, c}, {"gslb-C@1", 1, c1}, {"gslb-D@1", 1, d}, {"gslb-core@3", 3, core}}
}

// c05gNeutral: a reload the balancer rejected must leave balancing as it was before the reload:
// two fresh balancers, one with and one without the rejected reload in its past, answer the same
// sequence of requests (sequentially); results (backend name / error) must agree call by call.
func c05gNeutral(r *vk.Run, s c05g, base string) {
	id := base + "|neutral"
	if !r.Case(id) {
		return
	}
	seq := func(init string) string {
		s2 := s
		s2.init = init
		out := ""
		panicked, val := vk.Guard(func() {
			bal, _ := c05gFresh(s2)
			for i := 0; i < 6; i++ {
				b, err := bal.Balance(c05req([]string{"1.1.1.1", "1.1.1.2", "9.8.7.6"}[i%3], 0))
				switch {
				case err != nil:
					out += " " + err.Error()
				case b != nil:
					out += " " + b.SubCluster + "/" + b.Name
				default:
					out += " nil-nil"
				}
			}
		})
		if panicked {
			out += " PANIC " + vk.PanicSite(val)
		}
		return out
	}
	without := ""
	for i := 0; i < len(s.init); i++ {
		if s.init[i] == 'Q' {
			i++
			continue
		}
		without += string(s.init[i])
	}
	a, b := seq(without), seq(s.init)
	r.Outcome("gslb:" + s.mode + ":rejected-reload-neutral=" + fmt.Sprint(a == b))
	if a != b {
		r.Violation("rejected-reload-not-neutral:gslb:init="+s.init, id, "mode "+s.mode+": "+ fmt.Sprintf("6 sequential Balance calls answer%s without the rejected reload but%s after it", a, b))
	}
}

func c05GSLB(r *vk.Run, races *bal_slb.C05Races, idx *int) {
	maxSteps := 0
	for _, ps := range c05gPasses(r.Thorough()) {
		completed := true
		var execs int64
		for _, s := range ps.scns {
			*idx++
			base := ps.name + " " + s.String()
			class := "gslb:" + s.mode
			var seen map[string]bool
			one := func(ch *vk.Chooser) {
				out, calls, bal := c05gRun(s, ch, bal_slb.C05Horizon)
				id := base + "|trace:" + out.Trace
				if !r.Case(id) {
					return
				}
				oc := bal_slb.C05Judge(r, class, id, out, calls, races, func(tr string, h int) (o2 vsched.Outcome, c2 []*bal_slb.C05Call, diag string) {
					bal_slb.C05Replay1(tr, func(ch2 *vk.Chooser) { o2, c2, _ = c05gRun(s, ch2, h) })
					return
				})
				r.Transitions(int64(out.Steps))
				if !out.Horizon && out.Steps > maxSteps {
					maxSteps = out.Steps
				}
				errs := map[string]bool{}
				for _, c := range calls {
					if c.Err != nil {
						errs[c.Err.Error()] = true
					}
				}
				for _, e := range []string{"BK_NO_BACKEND", "BK_CROSS_RETRY_BALANCE", "BK_NO_SUB_CLUSTER_CROSS", "BK_NO_SUB_CLUSTER", "BK_RETRY_TOOMANY", "GSLB_BLACKHOLE"} {
					if errs[e] {
						oc += ":" + e
					}
				}
				r.Outcome(class + ":" + oc)
				if seen != nil && !out.Horizon && !out.Deadlock && out.Panic == "" {
					st := oc
					for _, c := range calls {
						if c.Backend != nil {
							st += " " + c.Backend.Name
						} else {
							st += " -"
						}
					}
					seen[st+"#"+c05gState(bal)] = true
				}
			}
			if r.Replaying() {
				if strings.HasPrefix(r.ReplayCase(), base+"|trace:") {
					bal_slb.C05Replay1(strings.TrimPrefix(r.ReplayCase(), base+"|trace:"), one)
				}
				if r.ReplayCase() == base+"|neutral" {
					c05gNeutral(r, s, base)
				}
				continue
			}
			if !r.Mine(*idx) {
				continue
			}
			if strings.Contains(s.init, "Q") && s.flip == "" {
				c05gNeutral(r, s, base)
			}
			seen = map[string]bool{}
			n := vk.Explore(nil, nil, ps.bound, one, func() bool { return r.Expired("c05 " + ps.name) })
			execs += n
			r.Traces(n)
			r.States(int64(len(seen)))
			r.Nontrivial(base)
			if *idx%211 == 0 {
				r.Sample(map[string]interface{}{"pass": ps.name, "scenario": s.String(), "interleavings": n, "distinct_results_and_final_states": len(seen)})
			}
			if r.Expired("c05 " + ps.name) {
				completed = false
				break
			}
		}
		r.Set("pass_"+ps.name, fmt.Sprintf("%d scenarios (all shards), preemption bound %d, completed=%v", len(ps.scns), ps.bound, completed))
		r.Add("sum_execs_"+ps.name, execs)
	}
	r.Set("max_steps_terminating_gslb", maxSteps)
}

func TestVerifC05(t *testing.T) {
	r := vk.Start(t, "C05")
	defer r.Finish()
	// metrics counters of the package are nil until the server initialises them
	state.ErrBkNoSubCluster = new(metrics.Counter)
	state.ErrBkNoSubClusterCross = new(metrics.Counter)
	state.ErrBkNoBackend = new(metrics.Counter)
	state.ErrBkRetryTooMany = new(metrics.Counter)
	state.ErrGslbBlackhole = new(metrics.Counter)
	bal_slb.C05Setup()
	races := bal_slb.C05NewRaces()
	defer races.Close()
	idx := 0
	// the (smaller) BalanceGslb seam first, so that an internal deadline on a loaded machine
	// cuts the tail of the BalanceRR families rather than a whole seam
	c05GSLB(r, races, &idx)
	bal_slb.VerifC05SLB(r, races, &idx)
}
