//go:build verif

package bal_slb

// C05 (BalanceRR seam + helpers shared with the bal_gslb half) — balancing calls are total,
// terminate and are race free under concurrent change.
//
// Engine E1: the real BalanceRR / BfeBackend (their `sync` import rewritten to the modelled
// vsync) run under the vsched controlled scheduler. One scenario = algorithm x backend list
// shape x start state x balancer layout x availability-flip script x reload script; for every
// scenario ALL interleavings of the threads at their synchronisation points up to the
// preemption bound are executed. Oracle (nothing but the property statement): no panic, no
// deadlock, no non-termination (step horizon exceeded, confirmed with a 10x horizon), every
// call returns backend-or-error, zero data-race reports under exact happens-before.
//
// This file is a non-test file (build tag verif) so that the single test binary of package
// bal_gslb can drive both seams; the entry point is VerifC05SLB.

import (
	"fmt"
	"math/rand"
	"os"
	"regexp"
	"runtime"
	"sort"
	"strings"

	"github.com/bfenetworks/bfe/bfe_balance/backend"
	"github.com/bfenetworks/bfe/bfe_config/bfe_cluster_conf/cluster_conf"
	"github.com/bfenetworks/bfe/bfe_config/bfe_cluster_conf/cluster_table_conf"
	"github.com/bfenetworks/bfe/verifkit/vk"
	"github.com/bfenetworks/bfe/verifkit/vsched"
)

// ---------------------------------------------------------------------------------------------
// shared helpers

// C05Call is the observed result of one balancing call (one slot per call, written by the
// calling thread only, read after the execution has been joined).
type C05Call struct {
	Done    bool
	Backend *backend.BfeBackend
	Err     error
}

// C05Horizon is the step bound of one execution; the longest terminating execution of any
// scenario is well below it (the maximum observed is recorded in the evidence).
const C05Horizon = 400

// C05BigSlowStart is the slow-start time (seconds) used when slow start is toggled on: with it
// the time-dependent weight of a restarted backend stays 0 for the first 10^4 seconds, so the
// wall clock never influences an execution.
const C05BigSlowStart = 1 << 20

var c05FailNum = 1

// c05Fetch is the health-check configuration fetcher installed for the whole process. Called
// from OnFail->UpdateStatus it returns the failure threshold; called from the health-check
// goroutine that UpdateStatus starts (`go check(...)`, real network dialling, not part of this
// property) it ends that goroutine at once, before it touched any shared state.
func c05Fetch(cluster string) *cluster_conf.BackendCheck {
	pcs := make([]uintptr, 16)
	n := runtime.Callers(1, pcs)
	fr := runtime.CallersFrames(pcs[:n])
	for {
		f, more := fr.Next()
		if strings.HasSuffix(f.Function, "/backend.check") {
			runtime.Goexit()
		}
		if !more {
			break
		}
	}
	n2 := c05FailNum
	return &cluster_conf.BackendCheck{FailNum: &n2}
}

// C05Setup installs the fetcher (idempotent).
func C05Setup() { backend.SetCheckConfFetcher(c05Fetch) }

// C05SetFailNum sets the failure threshold returned by the fetcher (call outside executions).
func C05SetFailNum(n int) { c05FailNum = n }

// C05Flip runs an availability script on backends: tokens of an op letter and a backend index:
// d = SetAvail(false), u = SetAvail(true), f = OnFail, s = OnSuccess. A leading '2' (threshold)
// is skipped here (see C05Threshold).
func C05Flip(script string, bs []*backend.BfeBackend) {
	script = strings.TrimPrefix(script, "2")
	for i := 0; i+1 < len(script); i += 2 {
		b := bs[int(script[i+1]-'0')]
		switch script[i] {
		case 'd':
			b.SetAvail(false)
		case 'u':
			b.SetAvail(true)
		case 'f':
			b.OnFail("cluster")
		case 's':
			b.OnSuccess()
		}
	}
}

// C05Threshold is the health-check failure threshold a flip script asks for.
func C05Threshold(script string) int {
	if strings.HasPrefix(script, "2") {
		return 2
	}
	return 1
}

// C05Races reads the race detector's reports of this process (GORACE=log_path=...).
type C05Races struct {
	path string
	off  int64
}

func C05NewRaces() *C05Races {
	rr := &C05Races{}
	for _, f := range strings.Fields(os.Getenv("GORACE")) {
		if strings.HasPrefix(f, "log_path=") {
			rr.path = fmt.Sprintf("%s.%d", strings.TrimPrefix(f, "log_path="), os.Getpid())
		}
	}
	return rr
}

// C05Race is one parsed report.
type C05Race struct {
	Sig  string // race:<access 1><-><access 2>, each access = its two innermost bfe functions "callee<caller"
	Text string
}

var c05accessRe = regexp.MustCompile(`^(Read|Write|Previous read|Previous write|Atomic read|Atomic write|Previous atomic read|Previous atomic write) at 0x[0-9a-f]+ by `)

// Collect returns the reports written since the last call.
func (rr *C05Races) Collect() []C05Race {
	if rr.path == "" {
		return nil
	}
	b, err := os.ReadFile(rr.path)
	if err != nil || int64(len(b)) <= rr.off {
		return nil
	}
	txt := string(b[rr.off:])
	rr.off = int64(len(b))
	var out []C05Race
	for _, blk := range strings.Split(txt, "WARNING: DATA RACE")[1:] {
		if i := strings.Index(blk, "=================="); i >= 0 {
			blk = blk[:i]
		}
		var tops []string
		lines := strings.Split(blk, "\n")
		for i := 0; i < len(lines); i++ {
			if !c05accessRe.MatchString(lines[i]) {
				continue
			}
			// the two innermost bfe frames of the access (harness and kit frames excluded)
			var fns []string
			for j := i + 1; j < len(lines) && strings.TrimSpace(lines[j]) != "" && len(fns) < 2; j++ {
				l := strings.TrimSpace(lines[j])
				if strings.HasPrefix(l, "/") || !strings.Contains(l, "(") {
					continue // file:line
				}
				if !strings.Contains(l, "/bfe_balance/") || strings.Contains(l, "C05") || strings.Contains(l, "c05") || strings.Contains(l, "verifkit") {
					if len(fns) > 0 {
						break
					}
					continue
				}
				fn := l
				if k := strings.LastIndex(fn, "("); k > 0 && strings.HasSuffix(fn, ")") {
					fn = fn[:k]
				}
				if k := strings.LastIndex(fn, "/"); k >= 0 {
					fn = fn[k+1:]
				}
				fns = append(fns, fn)
			}
			top := "?"
			if len(fns) > 0 {
				top = strings.Join(fns, "<")
			}
			tops = append(tops, top)
		}
		sort.Strings(tops)
		out = append(out, C05Race{Sig: "race:" + strings.Join(tops, "<->"), Text: strings.TrimSpace(blk)})
	}
	return out
}

// Close removes the report file.
func (rr *C05Races) Close() {
	if rr.path != "" {
		os.Remove(rr.path)
	}
}

// C05Judge applies the oracle to one finished execution. class is the narrow input class used
// in signatures (seam:algorithm); rerun re-executes a given schedule prefix (then default
// choices) with a given horizon. It returns the outcome class of the execution.
//
// Non-termination: an execution that exceeds the step horizon is only a violation if it keeps
// running no matter what the other threads do. The default continuation of a schedule never
// leaves the running thread, so a thread spinning until another thread acts would look like a
// livelock. Therefore the schedule is extended fairly: at the point where the horizon was hit,
// control is handed to the next enabled other thread (choice 1), which runs until it ends or
// blocks; this is repeated until no other thread is enabled any more (the chooser then reports
// "replay divergence": the alternative does not exist). Only then - every other thread is
// finished or blocked and the remaining one still exceeds the horizon - is it reported.
// rerun's third result is a seam-specific diagnosis of a run that hit the horizon; it becomes
// part of the signature (BalanceRR seam: "seq" when a lone sequential call from the reached
// state does not terminate either, i.e. the state alone is enough, no interleaving needed).
func C05Judge(r *vk.Run, class, id string, out vsched.Outcome, calls []*C05Call, races *C05Races, rerun func(trace string, horizon int) (vsched.Outcome, []*C05Call, string)) string {
	var rep []C05Race
	if out.Races > 0 {
		rep = races.Collect()
	}
	for _, rc := range rep {
		t := rc.Text
		if len(t) > 1800 {
			t = t[:1800] + " ..."
		}
		r.Violation(rc.Sig, id, "data race in this interleaving ("+class+"): "+t)
	}
	if out.Races > len(rep) {
		r.Violation("race:unparsed:"+class, id, fmt.Sprintf("%d race report(s), %d parsed (is GORACE=log_path set?)", out.Races, len(rep)))
	}
	spun := ""
	if out.Horizon && out.Panic == "" {
		tr, last, diag := out.Trace, out, ""
		confirmed := false
		for round := 1; round <= 16; round++ {
			ext := "1"
			if tr != "" {
				ext = tr + ".1"
			}
			o2, c2, d2 := rerun(ext, C05Horizon*(round+1))
			if strings.Contains(o2.Panic, "replay divergence") {
				// nobody else can run any more: the remaining thread alone gets one more full horizon
				o3, c3, d3 := rerun(tr, C05Horizon*(round+1))
				if o3.Horizon {
					confirmed, last, diag = true, o3, d3
				} else {
					out, calls, spun = o3, c3, "spin-ended-by-other-thread:"
				}
				break
			}
			if !o2.Horizon {
				// ended once the other threads ran: judge that (longer) execution instead
				out, calls, spun = o2, c2, "spin-ended-by-other-thread:"
				break
			}
			tr, last, diag = o2.Trace, o2, d2
		}
		if confirmed {
			sig, extra := "nonterm:"+class, ""
			if diag != "" {
				sig += ":" + diag
				extra = "; " + diag + " = a single call started alone (no other thread) from the balancer state reached here does not return either"
			}
			r.Violation(sig, id, fmt.Sprintf("a balancing call never returns: after %d steps, and after every other thread was run until it finished or blocked, the execution still exceeds the step horizon; live threads and their pending operations: %v%s", C05Horizon, last.Blocked, extra))
			return "nonterm"
		}
		if out.Horizon {
			r.Cap("nontermination-undecided:" + class)
			return "horizon-undecided"
		}
	}
	if out.Panic != "" {
		r.Violation("panic:"+class+":"+vk.PanicSite(out.Panic), id, "panic in thread "+out.PanicThr+": "+out.Panic)
		return "panic"
	}
	if out.Deadlock {
		r.Violation("deadlock:"+class, id, fmt.Sprintf("deadlock: blocked=%v", out.Blocked))
		return "deadlock"
	}
	var kinds []string
	for i, c := range calls {
		switch {
		case !c.Done:
			r.Violation("no-return:"+class, id, fmt.Sprintf("call %d did not return although the execution ended", i))
			kinds = append(kinds, "noreturn")
		case c.Backend == nil && c.Err == nil:
			r.Violation("nil-nil:"+class, id, fmt.Sprintf("call %d returned neither a backend nor an error", i))
			kinds = append(kinds, "nil")
		case c.Err != nil:
			kinds = append(kinds, "err")
		default:
			kinds = append(kinds, "ok")
		}
	}
	sort.Strings(kinds)
	return spun + strings.Join(kinds, "+")
}

// C05Replay1 executes exactly the schedule `trace` (then default choices).
func C05Replay1(trace string, f func(ch *vk.Chooser)) {
	vk.Explore(nil, vk.ParseInts(trace), 0, f, func() bool { return true })
}

// ---------------------------------------------------------------------------------------------
// BalanceRR seam

var c05AlgoName = []string{"WrrSimple", "WrrSmooth", "WrrSticky", "WlcSimple", "WlcSmooth"}

type c05scn struct {
	algo int
	ws   []int  // configured weights (at least one >0: all that SubClusterBackend.Check demands; negative weights are legal)
	init string // tokens: x = credits exhausted by a sequential prefix, d<i> = backend i starts unavailable, r<i> = restarted flag set, c<i> = one open connection, S = slow start on
	bal  [2]int // balancing calls of thread B1 / B2
	flip string // availability script (thread F), "" = none
	upd  string // reload script (thread U), "" = none
	key  string // sticky key ("" = nil key: random hash)
}

func (s c05scn) String() string {
	return fmt.Sprintf("slb %s ws=%v init=%q bal=%v flip=%q upd=%q key=%q", c05AlgoName[s.algo], s.ws, s.init, s.bal, s.flip, s.upd, s.key)
}

func c05bconf(name string, host int, w int) *cluster_table_conf.BackendConf {
	addr := fmt.Sprintf("10.0.0.%d", host)
	port := 80
	return &cluster_table_conf.BackendConf{Name: &name, Addr: &addr, Port: &port, Weight: &w}
}

// c05conf: backend i is b<i> at 10.0.0.(9-i) (descending addresses, so that the sticky
// algorithm's sort really reorders the list).
func c05conf(ws []int) cluster_table_conf.SubClusterBackend {
	var conf cluster_table_conf.SubClusterBackend
	for i, w := range ws {
		conf = append(conf, c05bconf(fmt.Sprintf("b%d", i), 9-i, w))
	}
	return conf
}

// c05updConf builds the configuration of one Update step.
func c05updConf(ws []int, kind byte) cluster_table_conf.SubClusterBackend {
	switch kind {
	case 'z': // first backend gets weight 0 (a single backend gets another weight instead)
		nw := append([]int{}, ws...)
		if len(nw) == 1 {
			nw[0]++
		} else {
			nw[0] = 0
			pos := false
			for _, w := range nw {
				pos = pos || w > 0
			}
			if !pos {
				nw[1] = 1
			}
		}
		return c05conf(nw)
	case '-': // first backend removed
		return c05conf(ws)[1:]
	case '+': // one backend added
		return append(c05conf(ws), c05bconf("n0", 20, 1))
	case 'x': // all replaced
		return cluster_table_conf.SubClusterBackend{c05bconf("n0", 20, 1), c05bconf("n1", 21, 2)}
	}
	panic("c05updConf")
}

// c05snap is the complete private state of a BalanceRR after the sequential prefix.
type c05snap struct {
	order  []int // backend index at each list position
	brs    []BackendRR
	sorted bool
	next   int
	ssNum  int
	ssTime int
}

func (s c05scn) prefixCalls() int {
	if !strings.Contains(s.init, "x") {
		return 0
	}
	if s.algo != WrrSimple {
		return 1
	}
	n := 0
	for _, w := range s.ws {
		if w > 0 {
			n += w * 100
		}
	}
	return n
}

func (s c05scn) keyBytes() []byte {
	if s.key == "" {
		return nil
	}
	return []byte(s.key)
}

// c05prefix runs the real sequential prefix once and records the resulting state.
func c05prefix(s c05scn) *c05snap {
	brr := NewBalanceRR("sub")
	brr.Init(c05conf(s.ws))
	idx := map[*BackendRR]int{}
	for i, b := range brr.backends {
		idx[b] = i
	}
	for i := 0; i < s.prefixCalls(); i++ {
		if _, err := brr.Balance(s.algo, s.keyBytes()); err != nil {
			panic("c05prefix: " + err.Error())
		}
	}
	sn := &c05snap{sorted: brr.sorted, next: brr.next, ssNum: brr.slowStartNum, ssTime: brr.slowStartTime}
	for _, b := range brr.backends {
		sn.order = append(sn.order, idx[b])
		c := *b
		c.backend = nil
		sn.brs = append(sn.brs, c)
	}
	return sn
}

// c05fresh builds a fresh BalanceRR in the scenario's start state.
func c05fresh(s c05scn, sn *c05snap) (*BalanceRR, []*backend.BfeBackend) {
	brr := NewBalanceRR("sub")
	brr.Init(c05conf(s.ws))
	bs := make([]*backend.BfeBackend, len(brr.backends))
	orig := append(BackendList{}, brr.backends...)
	for i, b := range orig {
		bs[i] = b.backend
	}
	for pos, i := range sn.order {
		b := orig[i]
		be := b.backend
		*b = sn.brs[pos]
		b.backend = be
		brr.backends[pos] = b
	}
	brr.sorted, brr.next, brr.slowStartNum, brr.slowStartTime = sn.sorted, sn.next, sn.ssNum, sn.ssTime
	for i := 0; i < len(s.init); i++ {
		switch s.init[i] {
		case 'd':
			i++
			bs[s.init[i]-'0'].SetAvail(false)
		case 'r':
			i++
			bs[s.init[i]-'0'].SetRestart(true)
		case 'c':
			i++
			bs[s.init[i]-'0'].IncConnNum()
		case 'S':
			brr.SetSlowStart(C05BigSlowStart)
		}
	}
	return brr, bs
}

// C05Backends returns the backend objects in list order (call outside executions only).
func (brr *BalanceRR) C05Backends() []*backend.BfeBackend {
	var out []*backend.BfeBackend
	for _, b := range brr.backends {
		out = append(out, b.backend)
	}
	return out
}

// C05State renders the complete selection state (call outside executions only).
func (brr *BalanceRR) C05State() string { return c05state(brr) }

func c05state(brr *BalanceRR) string {
	var sb strings.Builder
	fmt.Fprintf(&sb, "n%d", brr.next)
	for _, b := range brr.backends {
		fmt.Fprintf(&sb, " %s:%d/%d/%v/%v", b.backend.Name, b.current, b.weight, b.backend.Avail(), b.inSlowStart)
	}
	return sb.String()
}

// c05seqProbe copies the state of src (as left by an execution that hit the horizon) into a
// fresh BalanceRR and runs ONE balancing call alone under the scheduler: "seq" if that call does
// not terminate either.
func c05seqProbe(s c05scn, src *BalanceRR) string {
	clone := NewBalanceRR("sub")
	for _, b := range src.backends {
		nb := new(BackendRR)
		*nb = *b
		nk := backend.NewBfeBackend()
		ob := b.backend
		nk.Name, nk.Addr, nk.Port, nk.AddrInfo, nk.SubCluster = ob.Name, ob.Addr, ob.Port, ob.AddrInfo, ob.SubCluster
		if !ob.Avail() {
			nk.SetAvail(false)
		}
		nk.SetRestart(ob.GetRestart())
		for i := 0; i < ob.ConnNum(); i++ {
			nk.IncConnNum()
		}
		nb.backend = nk
		clone.backends = append(clone.backends, nb)
	}
	clone.sorted, clone.next, clone.slowStartNum, clone.slowStartTime = src.sorted, src.next, src.slowStartNum, src.slowStartTime
	var out vsched.Outcome
	C05Replay1("", func(ch *vk.Chooser) {
		out = vsched.Run(ch, C05Horizon, func() { clone.Balance(s.algo, s.keyBytes()) })
	})
	if out.Horizon {
		return "seq"
	}
	return ""
}

// c05run executes one interleaving of scenario s.
func c05run(s c05scn, sn *c05snap, ch *vk.Chooser, horizon int) (vsched.Outcome, []*C05Call, *BalanceRR) {
	rand.Seed(1)
	C05SetFailNum(C05Threshold(s.flip))
	brr, bs := c05fresh(s, sn)
	calls := make([]*C05Call, s.bal[0]+s.bal[1])
	for i := range calls {
		calls[i] = &C05Call{}
	}
	key := s.keyBytes()
	out := vsched.Run(ch, horizon, func() {
		// thread "main" is balancer B1; B2 / F / U are started first
		if n := s.bal[1]; n > 0 {
			mine := calls[s.bal[0]:]
			vsched.Go("B2", func() {
				for _, c := range mine {
					b, err := brr.Balance(s.algo, key)
					c.Backend, c.Err, c.Done = b, err, true
				}
			})
		}
		if s.flip != "" {
			vsched.Go("F", func() { C05Flip(s.flip, bs) })
		}
		if s.upd != "" {
			vsched.Go("U", func() {
				for i := 0; i < len(s.upd); i++ {
					switch s.upd[i] {
					case 'U':
						i++
						brr.Update(c05updConf(s.ws, s.upd[i]))
					case 'S':
						i++
						if s.upd[i] == '0' {
							brr.SetSlowStart(0)
						} else {
							brr.SetSlowStart(C05BigSlowStart)
						}
					}
				}
			})
		}
		for _, c := range calls[:s.bal[0]] {
			b, err := brr.Balance(s.algo, key)
			c.Backend, c.Err, c.Done = b, err, true
		}
	})
	return out, calls, brr
}

func c05valid(s c05scn) bool {
	n := len(s.ws)
	fl := strings.TrimPrefix(s.flip, "2")
	for _, scr := range []string{fl, s.init} {
		for i := 0; i < len(scr); i++ {
			if scr[i] >= '0' && scr[i] <= '9' && int(scr[i]-'0') >= n {
				return false
			}
		}
	}
	if s.flip == "u0" && !strings.Contains(s.init, "d0") {
		return false
	}
	if s.flip == "u1" && !strings.Contains(s.init, "d1") {
		return false // u1 restores the backend that starts unavailable (and only then means anything)
	}
	if strings.Contains(s.upd, "U-") {
		rest := 0
		for _, w := range s.ws[1:] {
			if w > 0 {
				rest += w
			}
		}
		if rest == 0 {
			return false // would leave no backend with weight > 0: rejected by SubClusterBackend.Check
		}
	}
	if strings.Contains(s.init, "c") && s.algo != WlcSimple && s.algo != WlcSmooth {
		return false
	}
	if (strings.Contains(s.init, "S") || strings.Contains(s.upd, "S")) && s.algo == WrrSticky {
		return false // slow start is not applied to the sticky algorithm
	}
	return true
}

type c05pass struct {
	name  string
	bound int
	scns  []c05scn
}

// c05slbPasses builds the scenario families.
//
//	A  B1 x2 calls | F | U      (the three threads of the plan)
//	B  B1 | B2 | F              (concurrent selections + flips)
//	C  B1 | B2 | U              (concurrent selections + reload)
//	D  B1 | B2 | F | U          (four threads, thorough only)
func c05slbPasses(thorough bool) []c05pass {
	shapes := [][]int{{1, 1}, {1, 0}}
	inits := []string{"", "x", "xd1", "c0"}
	flips := []string{"d0", "d0d1", "d0u0", "f0f1", "2f0s0f0", "u1"}
	upds := []string{"U-", "U+", "Uz", "S1U+"}
	if thorough {
		shapes = [][]int{{1, 1}, {1, 0}, {2, 1}, {1}, {1, 1, 1}}
		inits = []string{"", "x", "xd1", "c0", "d1", "Sr1", "xd0"}
		flips = []string{"d0", "d0d1", "d0u0", "f0f1", "2f0s0f0", "u1", "f0", "f0s0", "2f0f0", "d1u1"}
		upds = []string{"U-", "U+", "Uz", "S1U+", "Ux", "S0", "S1", "U+S1", "U-U+"}
	}
	add := func(l *[]c05scn, s c05scn) {
		s.key = "k1"
		if c05valid(s) {
			*l = append(*l, s)
		}
	}
	var a, b, c, d, aFull, core []c05scn
	for algo := 0; algo < 5; algo++ {
		for _, ws := range shapes {
			for _, in := range inits {
				// A: every flip with one reload and every reload with one flip (rotating partners)
				for i, fl := range flips {
					add(&a, c05scn{algo: algo, ws: ws, init: in, bal: [2]int{2, 0}, flip: fl, upd: upds[i%len(upds)]})
				}
				for i, up := range upds {
					add(&a, c05scn{algo: algo, ws: ws, init: in, bal: [2]int{2, 0}, flip: flips[(i+1)%len(flips)], upd: up})
				}
				for _, fl := range flips {
					add(&b, c05scn{algo: algo, ws: ws, init: in, bal: [2]int{1, 1}, flip: fl})
				}
				for _, up := range upds {
					add(&c, c05scn{algo: algo, ws: ws, init: in, bal: [2]int{1, 1}, upd: up})
				}
			}
		}
		// negative weights are legal configuration (SubClusterBackend.Check only wants one
		// weight > 0): shapes with a negative-weight backend; the flips take the
		// positive-weight backend down
		negShapes, negInits, negFlips, negUpds := [][]int{{1, -1}}, []string{"", "x"}, []string{"d0", "d0u0", "f0f1"}, []string{"U+", "Uz"}
		if thorough {
			negShapes, negFlips, negUpds = [][]int{{1, -1}, {-1, 1}}, flips, []string{"U+", "Uz", "U-", "S1U+", "S1"}
			// the positive-weight backend is already down at the start: every interleaving of
			// WrrSimple spins from the first step on (expensive), so only two scenarios
			add(&b, c05scn{algo: algo, ws: []int{1, -1}, init: "d0", bal: [2]int{1, 1}, flip: "u0"})
			add(&c, c05scn{algo: algo, ws: []int{1, -1}, init: "d0", bal: [2]int{1, 1}, upd: "U+"})
		}
		for _, ws := range negShapes {
			for _, in := range negInits {
				for i, fl := range negFlips {
					add(&a, c05scn{algo: algo, ws: ws, init: in, bal: [2]int{2, 0}, flip: fl, upd: negUpds[i%len(negUpds)]})
					add(&b, c05scn{algo: algo, ws: ws, init: in, bal: [2]int{1, 1}, flip: fl})
				}
				for _, up := range negUpds {
					add(&c, c05scn{algo: algo, ws: ws, init: in, bal: [2]int{1, 1}, upd: up})
				}
			}
		}
		// the collisions named in the plan at the higher bound: 2 backends, credits exhausted
		for _, in := range []string{"x", "xd1"} {
			fl := "d0d1"
			if in == "xd1" {
				fl = "d0"
			}
			add(&core, c05scn{algo: algo, ws: []int{1, 1}, init: in, bal: [2]int{1, 1}, flip: fl})
			add(&core, c05scn{algo: algo, ws: []int{1, 1}, init: in, bal: [2]int{1, 1}, upd: "U-"})
			add(&core, c05scn{algo: algo, ws: []int{1, 1}, init: in, bal: [2]int{2, 0}, flip: fl, upd: "U+"})
		}
		if thorough {
			for _, in := range []string{"", "x", "xd1"} {
				for _, fl := range flips {
					for _, up := range upds {
						add(&aFull, c05scn{algo: algo, ws: []int{1, 1}, init: in, bal: [2]int{2, 0}, flip: fl, upd: up})
					}
				}
				for _, fl := range []string{"d0d1", "f0f1"} {
					for _, up := range []string{"U-", "U+", "S1U+"} {
						add(&d, c05scn{algo: algo, ws: []int{1, 1}, init: in, bal: [2]int{1, 1}, flip: fl, upd: up})
					}
				}
			}
		}
	}
	// nil sticky key (random hash value) once per shape
	for _, ws := range shapes {
		b = append(b, c05scn{algo: WrrSticky, ws: ws, bal: [2]int{1, 1}, flip: "d0"})
	}
	if !thorough {
		return []c05pass{{"slb-A@1", 1, a}, {"slb-B@1", 1, b}, {"slb-C@1", 1, c}, {"slb-core@2", 2, core}}
	}
	return []c05pass{{"slb-A@1", 1, a}, {"slb-Afull@1", 1, aFull}, {"slb-B@2", 2, b}, {"slb-C@2", 2, c}, {"slb-D@1", 1, d}, {"slb-core@3", 3, core}}
}

// VerifC05SLB explores the BalanceRR seam. idx is the running work-item counter shared with
// the other seam (shard partition).
func VerifC05SLB(r *vk.Run, races *C05Races, idx *int) {
	maxSteps := 0
	for _, ps := range c05slbPasses(r.Thorough()) {
		completed := true
		var execs int64
		for _, s := range ps.scns {
			*idx++
			base := ps.name + " " + s.String()
			class := "slb:" + c05AlgoName[s.algo]
			var sn *c05snap
			var seen map[string]bool
			one := func(ch *vk.Chooser) {
				out, calls, brr := c05run(s, sn, ch, C05Horizon)
				id := base + "|trace:" + out.Trace
				if !r.Case(id) {
					return
				}
				oc := C05Judge(r, class, id, out, calls, races, func(tr string, h int) (o2 vsched.Outcome, c2 []*C05Call, diag string) {
					C05Replay1(tr, func(ch2 *vk.Chooser) {
						var b2 *BalanceRR
						o2, c2, b2 = c05run(s, sn, ch2, h)
						if o2.Horizon {
							diag = c05seqProbe(s, b2)
						}
					})
					return
				})
				r.Transitions(int64(out.Steps))
				if !out.Horizon && out.Steps > maxSteps {
					maxSteps = out.Steps
				}
				r.Outcome(class + ":" + oc)
				if seen != nil && !out.Horizon && !out.Deadlock && out.Panic == "" {
					st := oc
					for _, c := range calls {
						if c.Backend != nil {
							st += " " + c.Backend.Name
						} else {
							st += " -"
						}
					}
					seen[st+"#"+c05state(brr)] = true // distinct (results, final state) of this scenario
				}
			}
			if r.Replaying() {
				if strings.HasPrefix(r.ReplayCase(), base+"|trace:") {
					sn = c05prefix(s)
					C05Replay1(strings.TrimPrefix(r.ReplayCase(), base+"|trace:"), one)
				}
				continue
			}
			if !r.Mine(*idx) {
				continue
			}
			sn = c05prefix(s)
			seen = map[string]bool{}
			n := vk.Explore(nil, nil, ps.bound, one, func() bool { return r.Expired("c05 " + ps.name) })
			execs += n
			r.Traces(n)
			r.States(int64(len(seen)))
			r.Nontrivial(base)
			if *idx%211 == 0 {
				r.Sample(map[string]interface{}{"pass": ps.name, "scenario": s.String(), "interleavings": n, "distinct_results_and_final_states": len(seen)})
			}
			if r.Expired("c05 " + ps.name) {
				completed = false
				break
			}
		}
		r.Set("pass_"+ps.name, fmt.Sprintf("%d scenarios (all shards), preemption bound %d, completed=%v", len(ps.scns), ps.bound, completed))
		r.Add("sum_execs_"+ps.name, execs)
	}
	r.Set("max_steps_terminating_slb", maxSteps)
}
