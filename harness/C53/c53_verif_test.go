//go:build verif

//go:debug asynctimerchan=0

package mod_prison

// C53 — rate limiting jails keys after the threshold.
//
// Engine E3 on the real mod_prison with a fake clock. The real module is initialised through
// Init() from real configuration files (mod_prison.conf + a rule file), the request handler it
// registers at HandleFoundProduct is called through the real callback chain, and every request
// is parsed by the real bfe_http.ReadRequest. Time is the fake clock of a testing/synctest
// bubble: every execution (= one timeline of arrivals) runs in a fresh bubble on a freshly
// loaded rule table, and time.Sleep moves the clock exactly to the next arrival offset, so
// AccessCounter.IncAndCheck / recordAccess / shouldDeny see exact instants.
//
// Space: per configuration ALL timelines of exactly N arrivals (every shorter timeline is a
// prefix and is judged as such) over the symbols (offset, key), offsets non-decreasing, repeats
// allowed, both orders of same-instant arrivals of different keys. states = timeline prefixes
// (tree nodes, each carrying the automaton state set), transitions = arrivals (tree edges).
//
// Second space (key derivation, configurations "K-..."): for every key recipe the rule syntax
// offers (UseClientIP, header, Cookie, query, UseHost, UsePath, UseUrl, UrlRegexp, UseHeaders,
// combinations, UseSocketIP, UseConnectID) there are 2-3 logical clients that differ in key
// material and, per client, several request shapes that differ only in attributes OUTSIDE the
// key (source port, socket address, IP byte form, name case, wire order, unrelated headers /
// cookies / parameters, path, host, session id). All timelines over (offset, client, shape) run
// through the same handler under the same oracle: the shapes of one client are ONE key.
//
// Oracle: the statement's window automaton, per key, kept as a SET of admissible states
// (non-deterministic reference): Idle | Counting{start,count} | Jailed{free}.
//   * a period starts with the first request of a key that is not in a running period / jail;
//   * the request that makes count > Threshold within the period is denied and the key is
//     jailed until start + CheckPeriod + StayPeriod ("StayPeriod plus the rest of that period");
//   * requests strictly before that instant are denied, requests strictly after it start afresh;
//   * requests with count <= Threshold are allowed;
//   * each key has its own automaton (other keys are unaffected).
// Instants on which the statement is silent are not judged: a request exactly at
// start+CheckPeriod may belong to the old or a new period, a request exactly at the release
// instant may be denied or not (both successors are kept in the state set). A request the
// automaton allows although more than Threshold requests of the key arrived within the last
// CheckPeriod seconds across a period boundary (the sliding reading of "within one CheckPeriod")
// is not judged either.

import (
	"fmt"
	"net"
	"net/url"
	"os"
	"path/filepath"
	"strings"
	"testing"
	"testing/synctest"
	"time"

	"github.com/baidu/go-lib/web-monitor/web_monitor"

	"github.com/bfenetworks/bfe/bfe_basic"
	"github.com/bfenetworks/bfe/bfe_bufio"
	"github.com/bfenetworks/bfe/bfe_http"
	"github.com/bfenetworks/bfe/bfe_module"
	"github.com/bfenetworks/bfe/verifkit/vk"
)

// ---------------------------------------------------------------------------------------------
// configurations

// c53variant is one concrete request shape of a logical client. All variants of one client
// carry the same key material for the rule's AccessSignConf and differ only in attributes that
// are NOT part of the key.
type c53variant struct {
	name   string
	target string // request-target on the wire
	host   string
	hdrs   string // raw header lines after Host, each ending in \r\n
	cip    net.IP // Request.ClientAddr
	cport  int
	rip    net.IP // Session.RemoteAddr / Request.RemoteAddr (socket peer); nil = same as ClientAddr
	rport  int
	sid    string // Session.SessionId (connection id)
	raw    string
}

type c53client struct {
	name string
	vars []c53variant
}

type c53cfg struct {
	name      string
	part      string // "time": timing space, one request shape per key; "key": key derivation space
	threshold int32
	check     int64  // CheckPeriod, seconds
	stay      int64  // StayPeriod, seconds
	sign      string // name of the key recipe
	signJSON  string // AccessSignConf members
	action    string // CLOSE | FINISH | REQ_HEADER_SET
	product   string // product the rule is filed under: "pA" or "global"
	depth     int    // arrivals per timeline
	offs      []int64
	clients   []c53client
	pairs     [][2]int // flattened (client, variant)
}

const c53reqProduct = "pA"
const c53markHeader = "X-Bfe-Prison"

func (c *c53cfg) ruleJSON(version string, withRule bool) string {
	if !withRule {
		return fmt.Sprintf(`{"version": %q, "config": {}}`, version)
	}
	params := `[]`
	if c.action == "REQ_HEADER_SET" {
		params = fmt.Sprintf(`[%q, "1"]`, c53markHeader)
	}
	return fmt.Sprintf(`{
 "version": %q,
 "config": {
  %q: [{
   "Name": "c53 rule",
   "Cond": "default_t()",
   "accessSignConf": {%s},
   "action": {"cmd": %q, "params": %s},
   "checkPeriod": %d,
   "stayPeriod": %d,
   "threshold": %d,
   "accessDictSize": 1000,
   "prisonDictSize": 1000
  }]
 }
}`, version, c.product, c.signJSON, c.action, params, c.check, c.stay, c.threshold)
}

func c53ip(a, b, c, d byte) net.IP { return net.IPv4(a, b, c, d).To4() }

var c53proxyIP = c53ip(192, 168, 0, 7)

// c53mk builds a variant from the neutral request (GET /p, Host example.org, client
// 10.0.0.9:40001 connected directly, connection id conn-1) and the given modifications.
func c53mk(name string, mods ...func(v *c53variant)) c53variant {
	v := c53variant{name: name, target: "/p", host: "example.org", cip: c53ip(10, 0, 0, 9), cport: 40001, sid: "conn-1"}
	for _, m := range mods {
		m(&v)
	}
	return v
}

// modifications that never touch key material of the recipe they are used with
func c53otherClient(v *c53variant) { v.cip, v.cport, v.sid = c53ip(10, 0, 0, 77), 41000, "conn-7" }
func c53newConn(v *c53variant)     { v.cport, v.sid = v.cport+1, "conn-2" }
func c53viaProxy(v *c53variant)    { v.rip, v.rport = c53proxyIP, 5555 }

// c53timeClients: the two keys A and B of the timing space, one request shape each.
func c53timeClients(sign string) (string, []c53client) {
	var js string
	var cl []c53client
	for k := 0; k < 2; k++ {
		name := string(rune('A' + k))
		v := c53mk("only")
		v.cport = 40000 + k
		switch sign {
		case "header":
			js = `"header": ["X-Key"]`
			v.hdrs = "X-Key: " + name + "\r\n"
		case "clientip":
			js = `"UseClientIP": true`
			v.cip = c53ip(10, 0, 0, byte(1+k))
		case "cookie":
			js = `"Cookie": ["UID"]`
			v.hdrs = "Cookie: UID=" + name + "\r\n"
		case "query":
			js = `"query": ["k"]`
			v.target = "/p?k=" + name
		default:
			panic("c53: sign " + sign)
		}
		cl = append(cl, c53client{name: name, vars: []c53variant{v}})
	}
	return js, cl
}

// c53keyClients: per key recipe of the rule syntax, logical clients (pairwise different in key
// material) and, per client, request variants that differ only in attributes outside the key.
// The material of the OTHER clients is planted in non-key places of some variants.
func c53keyClients(sign string) (string, []c53client) {
	var cl []c53client
	add := func(name string, vars ...c53variant) { cl = append(cl, c53client{name: name, vars: vars}) }
	two := func(f func(me, other string) []c53variant, a, b string) {
		add("A", f(a, b)...)
		add("B", f(b, a)...)
	}
	switch sign {
	case "clientip": // key = client IP address
		ips := []net.IP{c53ip(10, 0, 0, 1), c53ip(10, 0, 0, 2)}
		for k, ip := range ips {
			ip, other := ip, ips[1-k]
			set := func(v *c53variant) { v.cip = ip }
			add(string(rune('A'+k)),
				c53mk("base", set),
				c53mk("new-source-port", set, c53newConn),
				c53mk("port-0-via-proxy", set, c53viaProxy, func(v *c53variant) { v.cport = 0 }),
				c53mk("via-proxy", set, c53viaProxy),
				c53mk("ip-16-byte-form-other-request", func(v *c53variant) {
					v.cip, v.cport, v.sid = ip.To16(), 40003, "conn-3"
					v.target, v.host = "/other?x=1", "other.example"
					v.hdrs = "X-Forwarded-For: " + other.String() + "\r\n"
				}))
		}
		return `"UseClientIP": true`, cl
	case "header": // key = value of one named header
		two(func(me, other string) []c53variant {
			return []c53variant{
				c53mk("base", func(v *c53variant) { v.hdrs = "X-Key: " + me + "\r\n" }),
				c53mk("lower-case-name", func(v *c53variant) { v.hdrs = "x-key: " + me + "\r\n" }),
				c53mk("upper-case-name", func(v *c53variant) { v.hdrs = "X-KEY: " + me + "\r\n" }),
				c53mk("extra-headers", func(v *c53variant) {
					v.hdrs = "Accept: */*\r\nX-Key: " + me + "\r\nX-Other: " + other + "\r\n"
				}),
				c53mk("other-request", c53otherClient, func(v *c53variant) {
					v.hdrs = "X-Key: " + me + "\r\n"
					v.target, v.host = "/other?k="+other, "other.example"
				}),
			}
		}, "A", "B")
		return `"header": ["X-Key"]`, cl
	case "cookie": // key = value of one named cookie
		two(func(me, other string) []c53variant {
			return []c53variant{
				c53mk("base", func(v *c53variant) { v.hdrs = "Cookie: UID=" + me + "\r\n" }),
				c53mk("cookie-last", func(v *c53variant) { v.hdrs = "Cookie: sid=" + other + "; UID=" + me + "\r\n" }),
				c53mk("cookie-first", func(v *c53variant) { v.hdrs = "Cookie: UID=" + me + "; theme=" + other + "\r\n" }),
				c53mk("other-request", c53otherClient, func(v *c53variant) {
					v.hdrs = "cookie: UID=" + me + "\r\n"
					v.target = "/other?UID=" + other
				}),
			}
		}, "A", "B")
		return `"Cookie": ["UID"]`, cl
	case "query": // key = value of one named query parameter
		two(func(me, other string) []c53variant {
			return []c53variant{
				c53mk("base", func(v *c53variant) { v.target = "/p?k=" + me }),
				c53mk("param-last", func(v *c53variant) { v.target = "/p?x=" + other + "&k=" + me }),
				c53mk("param-first", func(v *c53variant) { v.target = "/p?k=" + me + "&x=" + other }),
				c53mk("other-request", c53otherClient, func(v *c53variant) {
					v.target, v.host = "/other/path?k="+me, "other.example"
					v.hdrs = "X-Key: " + other + "\r\n"
				}),
			}
		}, "A", "B")
		return `"query": ["k"]`, cl
	case "host": // key = request host
		two(func(me, other string) []c53variant {
			return []c53variant{
				c53mk("base", func(v *c53variant) { v.host = me }),
				c53mk("other-path", func(v *c53variant) { v.host, v.target = me, "/x/y?host="+other }),
				c53mk("extra-headers", func(v *c53variant) { v.host, v.hdrs = me, "X-Host: "+other+"\r\nAccept: */*\r\n" }),
				c53mk("other-client", c53otherClient, c53viaProxy, func(v *c53variant) { v.host = me }),
			}
		}, "a.example", "b.example")
		return `"UseHost": true`, cl
	case "path": // key = request path
		two(func(me, other string) []c53variant {
			return []c53variant{
				c53mk("base", func(v *c53variant) { v.target = me }),
				c53mk("with-query", func(v *c53variant) { v.target = me + "?p=" + other }),
				c53mk("other-host-and-headers", func(v *c53variant) {
					v.target, v.host, v.hdrs = me, "other.example", "X-Path: "+other+"\r\n"
				}),
				c53mk("other-client", c53otherClient, func(v *c53variant) { v.target = me }),
			}
		}, "/pa", "/pb")
		return `"UsePath": true`, cl
	case "url": // key = request URI
		two(func(me, other string) []c53variant {
			return []c53variant{
				c53mk("base", func(v *c53variant) { v.target = me }),
				c53mk("other-host", func(v *c53variant) { v.target, v.host = me, "other.example" }),
				c53mk("extra-headers", func(v *c53variant) { v.target, v.hdrs = me, "Referer: "+other+"\r\n" }),
				c53mk("other-client", c53otherClient, c53viaProxy, func(v *c53variant) { v.target = me }),
			}
		}, "/p?u=A", "/p?u=B")
		return `"UseUrl": true`, cl
	case "urlregexp": // key = sub-matches of UrlRegexp in the request URI
		two(func(me, other string) []c53variant {
			return []c53variant{
				c53mk("base", func(v *c53variant) { v.target = "/u/" + me }),
				c53mk("longer-path", func(v *c53variant) { v.target = "/u/" + me + "/photos" }),
				c53mk("with-query", func(v *c53variant) { v.target = "/u/" + me + "?x=" + other }),
				c53mk("other-request", c53otherClient, func(v *c53variant) {
					v.target, v.host = "/u/"+me+"/"+other, "other.example"
				}),
			}
		}, "alice", "bob")
		return `"UrlRegexp": "^/u/([a-z]+)"`, cl
	case "allheaders": // key = all request header fields
		two(func(me, other string) []c53variant {
			h := "User-Agent: " + me + "\r\nAccept: */*\r\n"
			return []c53variant{
				c53mk("base", func(v *c53variant) { v.hdrs = h }),
				c53mk("other-path", func(v *c53variant) { v.hdrs, v.target = h, "/other?ua="+other }),
				c53mk("other-client", c53otherClient, c53viaProxy, func(v *c53variant) { v.hdrs = h }),
			}
		}, "ua-A", "ua-B")
		return `"UseHeaders": true`, cl
	case "clientip+cookie": // key = (client IP, cookie); B shares the IP with A, C the cookie
		type ck struct {
			n  string
			ip net.IP
			c  string
		}
		for _, x := range []ck{{"A", c53ip(10, 0, 0, 1), "a"}, {"B", c53ip(10, 0, 0, 1), "b"}, {"C", c53ip(10, 0, 0, 2), "a"}} {
			x := x
			add(x.n,
				c53mk("base", func(v *c53variant) { v.cip, v.hdrs = x.ip, "Cookie: UID="+x.c+"\r\n" }),
				c53mk("new-source-port-cookie-last", c53newConn, func(v *c53variant) {
					v.cip, v.hdrs = x.ip, "Cookie: x=1; UID="+x.c+"\r\n"
				}),
				c53mk("via-proxy-other-path", c53viaProxy, func(v *c53variant) {
					v.cip, v.hdrs, v.target = x.ip, "Cookie: UID="+x.c+"; y=2\r\n", "/other"
				}))
		}
		return `"UseClientIP": true, "Cookie": ["UID"]`, cl
	case "two-headers": // key = (X-Key, X-Tenant); B shares X-Key with A, C shares X-Tenant
		for _, x := range [][3]string{{"A", "1", "1"}, {"B", "1", "2"}, {"C", "2", "1"}} {
			x := x
			add(x[0],
				c53mk("base", func(v *c53variant) { v.hdrs = "X-Key: " + x[1] + "\r\nX-Tenant: " + x[2] + "\r\n" }),
				c53mk("reversed-wire-order", func(v *c53variant) { v.hdrs = "X-Tenant: " + x[2] + "\r\nX-Key: " + x[1] + "\r\n" }),
				c53mk("lower-case-extra-header-other-client", c53otherClient, func(v *c53variant) {
					v.hdrs = "x-key: " + x[1] + "\r\nAccept: */*\r\nx-tenant: " + x[2] + "\r\n"
				}))
		}
		return `"header": ["X-Key", "X-Tenant"]`, cl
	case "socketip": // key = address of the socket peer
		for k := 0; k < 2; k++ {
			ip := c53ip(10, 1, 0, byte(1+k))
			set := func(v *c53variant) { v.cip = ip }
			add(string(rune('A'+k)),
				c53mk("base", set),
				c53mk("new-source-port", set, c53newConn),
				c53mk("other-request", set, func(v *c53variant) { v.target, v.hdrs = "/other?x=1", "Accept: */*\r\n" }))
		}
		return `"UseSocketIP": true`, cl
	case "connectid": // key = connection (session) id; both connections come from one client IP
		for k := 0; k < 2; k++ {
			sid, port := "conn-"+string(rune('A'+k)), 40001+k
			set := func(v *c53variant) { v.sid, v.cport = sid, port }
			add(string(rune('A'+k)),
				c53mk("base", set),
				c53mk("other-path", set, func(v *c53variant) { v.target = "/other?x=1" }),
				c53mk("extra-headers", set, func(v *c53variant) { v.hdrs = "Accept: */*\r\nX-Key: 1\r\n" }))
		}
		return `"UseConnectID": true`, cl
	}
	panic("c53: key recipe " + sign)
}

var c53keyRecipes = []string{"clientip", "header", "cookie", "query", "host", "path", "url", "urlregexp",
	"allheaders", "clientip+cookie", "two-headers", "socketip", "connectid"}

func c53ms(ms ...int64) []int64 {
	out := make([]int64, len(ms))
	for i, m := range ms {
		out[i] = m * int64(time.Millisecond)
	}
	return out
}

func c53configs(thorough bool) []*c53cfg {
	var out []*c53cfg
	offsT := c53ms(0, 1000, 9900, 10000, 10100, 30000, 40100)
	if thorough {
		offsT = c53ms(0, 1000, 9900, 10000, 10100, 20000, 30000, 40000, 40100, 50100)
	}
	offsK := c53ms(0, 1000, 40100)
	fin := func(c *c53cfg) {
		for i, cl := range c.clients {
			for j := range cl.vars {
				v := &c.clients[i].vars[j]
				if v.rip == nil {
					v.rip, v.rport = v.cip, v.cport
				}
				v.raw = "GET " + v.target + " HTTP/1.1\r\nHost: " + v.host + "\r\n" + v.hdrs + "\r\n"
				c.pairs = append(c.pairs, [2]int{i, j})
			}
		}
		out = append(out, c)
	}
	add := func(th int32, stay int64, sign, action, product string, depth int) {
		c := &c53cfg{part: "time",
			name:      fmt.Sprintf("T%d-P10-S%d-%s-%s-%s", th, stay, sign, action, product),
			threshold: th, check: 10, stay: stay, sign: sign, action: action, product: product, depth: depth, offs: offsT}
		c.signJSON, c.clients = c53timeClients(sign)
		fin(c)
	}
	addKey := func(th int32, sign string, depth int) {
		c := &c53cfg{part: "key", name: fmt.Sprintf("K-T%d-P10-S30-%s", th, sign),
			threshold: th, check: 10, stay: 30, sign: sign, action: "CLOSE", product: "pA", depth: depth, offs: offsK}
		c.signJSON, c.clients = c53keyClients(sign)
		fin(c)
	}
	if !thorough {
		add(1, 30, "header", "CLOSE", "pA", 6)
		add(2, 30, "header", "CLOSE", "pA", 6)
		for _, k := range c53keyRecipes {
			addKey(1, k, 3)
		}
		return out
	}
	for _, th := range []int32{1, 2} {
		add(th, 30, "header", "CLOSE", "pA", 7)
		add(th, 0, "header", "CLOSE", "pA", 7)
		add(th, 30, "clientip", "FINISH", "pA", 6)
		add(th, 30, "cookie", "REQ_HEADER_SET", "pA", 6)
		add(th, 30, "query", "CLOSE", "global", 6)
	}
	add(0, 30, "header", "CLOSE", "pA", 6)
	add(3, 30, "header", "CLOSE", "pA", 6)
	for _, th := range []int32{1, 2} {
		for _, k := range c53keyRecipes {
			addKey(th, k, 4)
		}
	}
	return out
}

// ---------------------------------------------------------------------------------------------
// the real module

type c53mod struct {
	cf       *c53cfg
	m        *ModulePrison
	found    *bfe_module.HandlerList
	reload   func(url.Values) (string, error)
	rulePath string
	nonePath string
	conf     ProductRuleConf // the rule file as parsed and checked by productRuleConfLoad
}

func c53write(t *testing.T, p, content string) {
	if err := os.MkdirAll(filepath.Dir(p), 0o755); err != nil {
		t.Fatalf("c53: mkdir: %v", err)
	}
	if err := os.WriteFile(p, []byte(content), 0o644); err != nil {
		t.Fatalf("c53: write: %v", err)
	}
}

// c53setup builds one real module for one configuration (outside any bubble: metrics.Init
// starts a perpetual goroutine).
func c53setup(t *testing.T, dir string, cf *c53cfg) *c53mod {
	root := filepath.Join(dir, strings.ReplaceAll(cf.name, "+", "_"))
	c53write(t, filepath.Join(root, "mod_prison", "mod_prison.conf"),
		"[basic]\nProductRulePath = mod_prison/prison.data\n\n[log]\nOpenDebug = false\n")
	s := &c53mod{cf: cf}
	s.rulePath = filepath.Join(root, "mod_prison", "prison.data")
	s.nonePath = filepath.Join(root, "mod_prison", "prison_none.data")
	c53write(t, s.rulePath, cf.ruleJSON("c53-rules", true))
	c53write(t, s.nonePath, cf.ruleJSON("c53-none", false))

	s.m = NewModulePrison()
	cbs := bfe_module.NewBfeCallbacks()
	whs := web_monitor.NewWebHandlers()
	if err := s.m.Init(cbs, whs, root); err != nil {
		t.Fatalf("c53: Init(%s): %v", cf.name, err)
	}
	s.found = cbs.GetHandlerList(bfe_module.HandleFoundProduct)
	if s.found == nil {
		t.Fatalf("c53: no HandleFoundProduct list")
	}
	h, ok := (*whs.Handlers[web_monitor.WebHandleReload])[ModPrison]
	if !ok {
		t.Fatalf("c53: no reload handler")
	}
	s.reload, ok = h.(func(url.Values) (string, error))
	if !ok {
		t.Fatalf("c53: reload handler has type %T", h)
	}

	var err error
	if s.conf, err = productRuleConfLoad(s.rulePath); err != nil {
		t.Fatalf("c53: productRuleConfLoad: %v", err)
	}
	return s
}

// fresh gives the execution a rule table without any history: the table is emptied (the old
// rule and its dictionaries are dropped) and the rule configuration, parsed and checked from the
// real rule file by productRuleConfLoad, is loaded again through productRuleTable.load (the
// function the reload handler calls after reading the file). The first execution of every
// work item goes through the registered reload handler and the files instead.
func (s *c53mod) fresh(t *testing.T, viaFiles bool) {
	if viaFiles {
		if _, err := s.reload(url.Values{"path": {s.nonePath}}); err != nil {
			t.Fatalf("c53: reload none: %v", err)
		}
		if _, err := s.reload(url.Values{"path": {s.rulePath}}); err != nil {
			t.Fatalf("c53: reload rules: %v", err)
		}
		return
	}
	s.m.productTable.setTable(make(map[string]*prisonRules))
	if err := s.m.productTable.load(s.conf); err != nil {
		t.Fatalf("c53: load: %v", err)
	}
}

func (s *c53mod) request(t *testing.T, v *c53variant) *bfe_basic.Request {
	hr, err := bfe_http.ReadRequest(bfe_bufio.NewReaderSize(strings.NewReader(v.raw), 512), 65536)
	if err != nil {
		t.Fatalf("c53: ReadRequest(%q): %v", v.raw, err)
	}
	sess := bfe_basic.NewSession(nil)
	sess.SessionId = v.sid
	sess.RemoteAddr = &net.TCPAddr{IP: v.rip, Port: v.rport}
	hr.RemoteAddr = sess.RemoteAddr.String()
	req := bfe_basic.NewRequest(hr, nil, nil, sess, nil)
	req.Route.Product = c53reqProduct
	req.ClientAddr = &net.TCPAddr{IP: v.cip, Port: v.cport}
	return req
}

// arrive sends one request of the key through the real handler chain; denied = the rule's
// action was applied to this request.
func (s *c53mod) arrive(t *testing.T, v *c53variant) (denied bool) {
	req := s.request(t, v)
	ret, _ := s.found.FilterRequest(req)
	switch s.cf.action {
	case "CLOSE":
		if ret == bfe_module.BfeHandlerClose {
			return true
		}
	case "FINISH":
		if ret == bfe_module.BfeHandlerFinish {
			return true
		}
	case "REQ_HEADER_SET":
		if ret == bfe_module.BfeHandlerGoOn {
			return req.HttpRequest.Header.Get(c53markHeader) == "1"
		}
	}
	if ret != bfe_module.BfeHandlerGoOn {
		t.Fatalf("c53: unexpected handler verdict %d for action %s", ret, s.cf.action)
	}
	return false
}

// ---------------------------------------------------------------------------------------------
// reference: the statement's window automaton (non-deterministic at the silent instants)

const (
	c53Idle = iota
	c53Counting
	c53Jailed
)

type c53st struct {
	mode  int8
	start int64 // Counting: start of the period
	count int32 // Counting: requests so far in the period
	free  int64 // Jailed: release instant
}

type c53br struct {
	deny bool
	next c53st
	tag  string // what kind of step this was (outcome vocabulary)
}

type c53par struct {
	T    int32
	P, S int64 // ns
}

// c53inPeriod: the request is counted in the period of s (s.mode == c53Counting).
func c53inPeriod(s c53st, t int64, p c53par, tag string, out []c53br) []c53br {
	c := s.count + 1
	if c <= p.T {
		return append(out, c53br{false, c53st{mode: c53Counting, start: s.start, count: c}, tag})
	}
	free := s.start + p.P + p.S
	j := c53st{mode: c53Jailed, free: free}
	if t >= free {
		// jail of zero remaining length (StayPeriod 0, request at the last instant of the
		// period): "until ... has passed" is silent about this very instant
		out = append(out, c53br{true, j, "exceeding:zero-jail"})
		return append(out, c53br{false, j, "exceeding:zero-jail"})
	}
	return append(out, c53br{true, j, "exceeding"})
}

func c53fresh(t int64, p c53par, tag string, out []c53br) []c53br {
	return c53inPeriod(c53st{mode: c53Counting, start: t, count: 0}, t, p, tag, out)
}

// c53step lists every admissible (verdict, successor) for a request at instant t in state s.
func c53step(s c53st, t int64, p c53par, out []c53br) []c53br {
	switch s.mode {
	case c53Jailed:
		switch {
		case t < s.free:
			return append(out, c53br{true, s, "in-jail"})
		case t == s.free: // silent instant: still jailed, or released
			out = append(out, c53br{true, s, "at-release-instant:still-jailed"})
			return c53fresh(t, p, "at-release-instant:released", out)
		default:
			return c53fresh(t, p, "after-release", out)
		}
	case c53Counting:
		end := s.start + p.P
		switch {
		case t < end:
			return c53inPeriod(s, t, p, "in-period", out)
		case t == end: // silent instant: last instant of the old period, or a new period
			out = c53inPeriod(s, t, p, "at-period-end:old-period", out)
			return c53fresh(t, p, "at-period-end:new-period", out)
		default:
			return c53fresh(t, p, "new-period", out)
		}
	}
	return c53fresh(t, p, "first", out)
}

// ---------------------------------------------------------------------------------------------
// one execution

type c53arr struct {
	off    int64
	key    int // logical client
	vname  string
	denied bool
	want   string // what the reference admitted
	note   string
}

type c53keyRef struct {
	states []c53st
	lost   bool    // not judged any more in this execution (after a violation / unjudged deny)
	times  []int64 // all arrival instants of the key so far
	jailed bool    // some admissible history had the key jailed at some time
}

type c53exec struct {
	arr     []c53arr
	anyDeny bool
}

func c53addState(ss []c53st, s c53st) []c53st {
	for _, x := range ss {
		if x == s {
			return ss
		}
	}
	return append(ss, s)
}

func c53fmtTimeline(arr []c53arr) string {
	var sb strings.Builder
	for i, a := range arr {
		if i > 0 {
			sb.WriteString(" ; ")
		}
		v := "allowed"
		if a.denied {
			v = "DENIED"
		}
		who := string(rune('A' + a.key))
		if a.vname != "only" {
			who += "[" + a.vname + "]"
		}
		fmt.Fprintf(&sb, "t=%.1fs key=%s %s (ref: %s)", float64(a.off)/1e9, who, v, a.want)
		if a.note != "" {
			sb.WriteString(" <== " + a.note)
		}
	}
	return sb.String()
}

// c53run executes one timeline on the real module in a fresh bubble and judges every arrival;
// outcome counters and violation reports are only fed for arrivals with isNew(i) (arrivals not
// already counted by an earlier execution sharing the prefix).
func c53run(t *testing.T, r *vk.Run, s *c53mod, tl []int, id string, viaFiles bool, isNew func(i int) bool) (ex c53exec) {
	cf := s.cf
	offs, M := cf.offs, len(cf.pairs)
	par := c53par{T: cf.threshold, P: cf.check * int64(time.Second), S: cf.stay * int64(time.Second)}
	synctest.Test(t, func(t *testing.T) {
		s.fresh(t, viaFiles)
		t0 := time.Now()
		ref := make([]c53keyRef, len(cf.clients))
		for k := range ref {
			ref[k].states = []c53st{{mode: c53Idle}}
		}
		var brs []c53br
		for i, sym := range tl {
			off, key := offs[sym/M], cf.pairs[sym%M][0]
			va := &cf.clients[key].vars[cf.pairs[sym%M][1]]
			if d := off - int64(time.Since(t0)); d > 0 {
				time.Sleep(time.Duration(d))
			}
			if got := int64(time.Since(t0)); got != off {
				t.Fatalf("c53: fake clock at %d, want %d", got, off)
			}
			var denied bool
			if panicked, val := vk.Guard(func() { denied = s.arrive(t, va) }); panicked {
				r.Violation("panic:"+vk.PanicSite(val), id, fmt.Sprintf("cfg %s arrival %d of %s: %s", cf.name, i, c53fmtTimeline(ex.arr), val))
				return
			}
			if denied {
				ex.anyDeny = true
			}
			a := c53arr{off: off, key: key, vname: va.name, denied: denied}
			kr := &ref[key]
			kr.times = append(kr.times, off)
			if kr.lost {
				a.want = "not judged"
				ex.arr = append(ex.arr, a)
				continue
			}
			// all admissible steps from all admissible states
			brs = brs[:0]
			for _, st := range kr.states {
				brs = c53step(st, off, par, brs)
			}
			canDeny, canAllow := false, false
			for _, b := range brs {
				if b.deny {
					canDeny = true
				} else {
					canAllow = true
				}
			}
			switch {
			case canDeny && canAllow:
				a.want = "either (silent instant)"
			case canDeny:
				a.want = "deny"
			default:
				a.want = "allow"
			}
			// sliding reading: more than T requests of this key within the last P (closed interval)
			sliding := 0
			for _, x := range kr.times {
				if off-x <= par.P {
					sliding++
				}
			}
			straddle := !canDeny && int32(sliding) > par.T
			if straddle {
				a.want = "allow (window automaton); not judged: >Threshold arrivals within the last CheckPeriod across a period boundary"
			}
			ok := (denied && canDeny) || (!denied && canAllow)
			if !ok && straddle {
				// denied where only the sliding reading says so: not judged, and the automaton
				// cannot follow the implementation any further for this key
				kr.lost = true
				if isNew(i) {
					r.Outcome("unjudged:straddle:denied")
				}
				ex.arr = append(ex.arr, a)
				continue
			}
			if !ok {
				// classify
				otherJailed := "other-key-never-jailed"
				for k := range ref {
					if k != key && ref[k].jailed {
						otherJailed = "other-key-jailed-before"
					}
				}
				var sig string
				if denied {
					// reference: must be allowed
					cls := "below-threshold"
					for _, b := range brs {
						if strings.Contains(b.tag, "after-release") {
							cls = "after-release"
						} else if strings.Contains(b.tag, "new-period") && cls != "after-release" {
							cls = "new-period"
						}
					}
					if !kr.jailed {
						sig = "never-denied-below-threshold:" + cls + ":key-never-jailed:" + otherJailed + ":denied"
					} else {
						sig = "never-denied-below-threshold:" + cls + ":key-jailed-before:" + otherJailed + ":denied"
					}
				} else {
					// reference: must be denied
					cls := "in-jail"
					for _, b := range brs {
						if strings.HasPrefix(b.tag, "exceeding") {
							cls = "exceeding-request"
						}
					}
					sig = "denied-until-release:" + cls + ":" + otherJailed + ":allowed"
				}
				if cf.part == "key" {
					// key derivation space: which recipe, which direction, which request shape
					if denied {
						sig = "key:" + cf.sign + ":denied-below-threshold:" + va.name
					} else {
						sig = "key:" + cf.sign + ":same-key-not-counted:" + va.name
					}
				}
				a.note = "VIOLATION " + sig
				ex.arr = append(ex.arr, a)
				kr.lost = true
				if !isNew(i) {
					continue // already reported by the execution that first reached this prefix
				}
				r.Violation(sig, id, fmt.Sprintf("cfg %s (Threshold %d, CheckPeriod %ds, StayPeriod %ds, accessSignConf {%s}, action %s): %s",
					cf.name, cf.threshold, cf.check, cf.stay, cf.signJSON, cf.action, c53fmtTimeline(ex.arr)))
				continue
			}
			// keep the successors consistent with what the implementation did
			next := kr.states[:0:0]
			tag := ""
			for _, b := range brs {
				if b.deny == denied {
					next = c53addState(next, b.next)
					if tag == "" {
						tag = b.tag
					} else if tag != b.tag {
						tag = "several-admissible-histories"
					}
					if b.next.mode == c53Jailed {
						kr.jailed = true
					}
				}
			}
			kr.states = next
			if isNew(i) {
				switch {
				case straddle:
					r.Outcome("unjudged:straddle:allowed")
				case canDeny && canAllow:
					if denied {
						r.Outcome("either-admissible:denied")
					} else {
						r.Outcome("either-admissible:allowed")
					}
				case denied:
					r.Outcome(cf.part + ":deny:" + tag)
				default:
					r.Outcome(cf.part + ":allow:" + tag)
				}
			}
			ex.arr = append(ex.arr, a)
		}
	})
	return ex
}

// ---------------------------------------------------------------------------------------------
// enumeration

func TestVerifC53(t *testing.T) {
	r := vk.Start(t, "C53")
	defer r.Finish()

	dir := os.Getenv("VERIF_SCRATCH")
	if dir == "" {
		dir = t.TempDir()
	} else {
		os.RemoveAll(dir)
		if err := os.MkdirAll(dir, 0o755); err != nil {
			t.Fatalf("c53: %v", err)
		}
		defer os.RemoveAll(dir)
	}

	thorough := r.Thorough()
	cfgs := c53configs(thorough)
	r.Set("bounds", "per configuration: all timelines of exactly <depth> arrivals (all shorter ones as prefixes) over offsets x (logical client, request variant), offsets non-decreasing, repeats allowed")
	var names []string
	for _, c := range cfgs {
		offS := make([]string, len(c.offs))
		for i, o := range c.offs {
			offS[i] = fmt.Sprintf("%g", float64(o)/1e9)
		}
		names = append(names, fmt.Sprintf("%s depth=%d offsets_s=[%s] clients=%d request_shapes=%d", c.name, c.depth, strings.Join(offS, " "), len(c.clients), len(c.pairs)))
	}
	r.Set("configurations", names)

	item := 0
	stop := false
	samples := 0
	for _, cf := range cfgs {
		var mod *c53mod // built lazily: only when this shard owns an item of the configuration
		N := cf.depth
		M := len(cf.pairs)
		nsym := M * len(cf.offs)
		firstItemOfCfg := true
		for a := 0; a < nsym && !stop; a++ {
			for b := (a / M) * M; b < nsym && !stop; b++ {
				item++
				rootHere := firstItemOfCfg
				firstItemOfCfg = false
				if !r.Mine(item) {
					continue
				}
				if mod == nil {
					mod = c53setup(t, dir, cf)
				}
				firstB := b == (a/M)*M
				tl := make([]int, N)
				tl[0], tl[1] = a, b
				prev := make([]int, N)
				firstLeaf := true
				var rec func(d int)
				rec = func(d int) {
					if stop {
						return
					}
					if d < N {
						for s := (tl[d-1] / M) * M; s < nsym; s++ {
							tl[d] = s
							rec(d + 1)
						}
						return
					}
					if r.Expired("timelines") {
						stop = true
						return
					}
					mkid := func() string { return "cfg=" + cf.name + "|tl=" + vk.IntsString(tl) }
					if !r.CaseN(mkid) {
						return
					}
					id := mkid
					common := 0
					if !firstLeaf {
						for common < N && prev[common] == tl[common] {
							common++
						}
					}
					fl := firstLeaf
					isNew := func(i int) bool {
						if r.Replaying() {
							return true
						}
						switch {
						case i >= 2:
							return i >= common
						case i == 1:
							return fl
						default:
							return fl && firstB
						}
					}
					ex := c53run(t, r, mod, tl, id(), fl || r.Replaying(), isNew)
					nNew := int64(0)
					for i := 0; i < N; i++ {
						if isNew(i) {
							nNew++
						}
					}
					r.Transitions(nNew)
					r.States(nNew)
					if fl && rootHere {
						r.States(1) // the empty timeline of this configuration
					}
					if ex.anyDeny {
						r.NontrivialN(1)
					}
					if ex.anyDeny && len(ex.arr) == N && samples < 6 && common <= 2 {
						samples++
						r.Sample(map[string]string{"cfg": cf.name, "timeline": c53fmtTimeline(ex.arr)})
					}
					r.Traces(1)
					copy(prev, tl)
					firstLeaf = false
				}
				rec(2)
			}
		}
	}
}
