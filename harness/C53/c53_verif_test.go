//go:build verif

//go:debug asynctimerchan=0

package mod_prison

// C53 — rate limiting jails keys after the threshold.
//
// Engine E3 on the real mod_prison with a fake clock. The real module is initialised through
// Init() from real configuration files (mod_prison.conf + a rule file), the request handler it
// registers at HandleFoundProduct is called through the real callback chain, and every request
// is parsed by the real bfe_http.ReadRequest. Time is the fake clock of a testing/synctest
// bubble: every execution (= one timeline of arrivals) runs in a fresh bubble on a freshly
// loaded rule table, and time.Sleep moves the clock exactly to the next arrival offset, so
// AccessCounter.IncAndCheck / recordAccess / shouldDeny see exact instants.
//
// Space: per configuration ALL timelines of exactly N arrivals (every shorter timeline is a
// prefix and is judged as such) over the symbols (offset, key), offsets non-decreasing, repeats
// allowed, both orders of same-instant arrivals of different keys. states = timeline prefixes
// (tree nodes, each carrying the automaton state set), transitions = arrivals (tree edges).
//
// Oracle: the statement's window automaton, per key, kept as a SET of admissible states
// (non-deterministic reference): Idle | Counting{start,count} | Jailed{free}.
//   * a period starts with the first request of a key that is not in a running period / jail;
//   * the request that makes count > Threshold within the period is denied and the key is
//     jailed until start + CheckPeriod + StayPeriod ("StayPeriod plus the rest of that period");
//   * requests strictly before that instant are denied, requests strictly after it start afresh;
//   * requests with count <= Threshold are allowed;
//   * each key has its own automaton (other keys are unaffected).
// Instants on which the statement is silent are not judged: a request exactly at
// start+CheckPeriod may belong to the old or a new period, a request exactly at the release
// instant may be denied or not (both successors are kept in the state set). A request the
// automaton allows although more than Threshold requests of the key arrived within the last
// CheckPeriod seconds across a period boundary (the sliding reading of "within one CheckPeriod")
// is not judged either.

import (
	"fmt"
	"net"
	"net/url"
	"os"
	"path/filepath"
	"strings"
	"testing"
	"testing/synctest"
	"time"

	"github.com/baidu/go-lib/web-monitor/web_monitor"

	"github.com/bfenetworks/bfe/bfe_basic"
	"github.com/bfenetworks/bfe/bfe_bufio"
	"github.com/bfenetworks/bfe/bfe_http"
	"github.com/bfenetworks/bfe/bfe_module"
	"github.com/bfenetworks/bfe/verifkit/vk"
)

// ---------------------------------------------------------------------------------------------
// configurations

type c53cfg struct {
	name      string
	threshold int32
	check     int64  // CheckPeriod, seconds
	stay      int64  // StayPeriod, seconds
	sign      string // what makes the key: header | clientip | cookie | query
	action    string // CLOSE | FINISH | REQ_HEADER_SET
	product   string // product the rule is filed under: "pA" or "global"
	depth     int    // arrivals per timeline
}

const c53reqProduct = "pA"
const c53markHeader = "X-Bfe-Prison"

func (c *c53cfg) ruleJSON(version string, withRule bool) string {
	if !withRule {
		return fmt.Sprintf(`{"version": %q, "config": {}}`, version)
	}
	var sign string
	switch c.sign {
	case "header":
		sign = `"header": ["X-Key"]`
	case "clientip":
		sign = `"UseClientIP": true`
	case "cookie":
		sign = `"Cookie": ["UID"]`
	case "query":
		sign = `"query": ["k"]`
	default:
		panic("c53: sign " + c.sign)
	}
	params := `[]`
	if c.action == "REQ_HEADER_SET" {
		params = fmt.Sprintf(`[%q, "1"]`, c53markHeader)
	}
	return fmt.Sprintf(`{
 "version": %q,
 "config": {
  %q: [{
   "Name": "c53 rule",
   "Cond": "default_t()",
   "accessSignConf": {%s},
   "action": {"cmd": %q, "params": %s},
   "checkPeriod": %d,
   "stayPeriod": %d,
   "threshold": %d,
   "accessDictSize": 1000,
   "prisonDictSize": 1000
  }]
 }
}`, version, c.product, sign, c.action, params, c.check, c.stay, c.threshold)
}

func c53configs(thorough bool) []*c53cfg {
	var out []*c53cfg
	add := func(th int32, stay int64, sign, action, product string, depth int) {
		out = append(out, &c53cfg{
			name:      fmt.Sprintf("T%d-P10-S%d-%s-%s-%s", th, stay, sign, action, product),
			threshold: th, check: 10, stay: stay, sign: sign, action: action, product: product, depth: depth})
	}
	if !thorough {
		add(1, 30, "header", "CLOSE", "pA", 6)
		add(2, 30, "header", "CLOSE", "pA", 6)
		return out
	}
	for _, th := range []int32{1, 2} {
		add(th, 30, "header", "CLOSE", "pA", 7)
		add(th, 0, "header", "CLOSE", "pA", 7)
		add(th, 30, "clientip", "FINISH", "pA", 6)
		add(th, 30, "cookie", "REQ_HEADER_SET", "pA", 6)
		add(th, 30, "query", "CLOSE", "global", 6)
	}
	add(0, 30, "header", "CLOSE", "pA", 6)
	add(3, 30, "header", "CLOSE", "pA", 6)
	return out
}

// offsets in nanoseconds from the start of the bubble
func c53offsets(thorough bool) []int64 {
	ms := []int64{0, 1000, 9900, 10000, 10100, 30000, 40100}
	if thorough {
		ms = []int64{0, 1000, 9900, 10000, 10100, 20000, 30000, 40000, 40100, 50100}
	}
	out := make([]int64, len(ms))
	for i, m := range ms {
		out[i] = m * int64(time.Millisecond)
	}
	return out
}

// ---------------------------------------------------------------------------------------------
// the real module

type c53mod struct {
	cf       *c53cfg
	m        *ModulePrison
	found    *bfe_module.HandlerList
	reload   func(url.Values) (string, error)
	rulePath string
	nonePath string
	conf     ProductRuleConf // the rule file as parsed and checked by productRuleConfLoad
	raw      [2]string       // raw request bytes per key
	ip       [2]net.IP
}

func c53write(t *testing.T, p, content string) {
	if err := os.MkdirAll(filepath.Dir(p), 0o755); err != nil {
		t.Fatalf("c53: mkdir: %v", err)
	}
	if err := os.WriteFile(p, []byte(content), 0o644); err != nil {
		t.Fatalf("c53: write: %v", err)
	}
}

// c53setup builds one real module for one configuration (outside any bubble: metrics.Init
// starts a perpetual goroutine).
func c53setup(t *testing.T, dir string, cf *c53cfg) *c53mod {
	root := filepath.Join(dir, cf.name)
	c53write(t, filepath.Join(root, "mod_prison", "mod_prison.conf"),
		"[basic]\nProductRulePath = mod_prison/prison.data\n\n[log]\nOpenDebug = false\n")
	s := &c53mod{cf: cf}
	s.rulePath = filepath.Join(root, "mod_prison", "prison.data")
	s.nonePath = filepath.Join(root, "mod_prison", "prison_none.data")
	c53write(t, s.rulePath, cf.ruleJSON("c53-rules", true))
	c53write(t, s.nonePath, cf.ruleJSON("c53-none", false))

	s.m = NewModulePrison()
	cbs := bfe_module.NewBfeCallbacks()
	whs := web_monitor.NewWebHandlers()
	if err := s.m.Init(cbs, whs, root); err != nil {
		t.Fatalf("c53: Init(%s): %v", cf.name, err)
	}
	s.found = cbs.GetHandlerList(bfe_module.HandleFoundProduct)
	if s.found == nil {
		t.Fatalf("c53: no HandleFoundProduct list")
	}
	h, ok := (*whs.Handlers[web_monitor.WebHandleReload])[ModPrison]
	if !ok {
		t.Fatalf("c53: no reload handler")
	}
	s.reload, ok = h.(func(url.Values) (string, error))
	if !ok {
		t.Fatalf("c53: reload handler has type %T", h)
	}

	var err error
	if s.conf, err = productRuleConfLoad(s.rulePath); err != nil {
		t.Fatalf("c53: productRuleConfLoad: %v", err)
	}

	for k := 0; k < 2; k++ {
		name := string(rune('A' + k))
		target, hdr := "/p", ""
		s.ip[k] = net.IPv4(10, 0, 0, 9).To4()
		switch cf.sign {
		case "header":
			hdr = "X-Key: " + name + "\r\n"
		case "clientip":
			s.ip[k] = net.IPv4(10, 0, 0, byte(1+k)).To4()
		case "cookie":
			hdr = "Cookie: UID=" + name + "\r\n"
		case "query":
			target = "/p?k=" + name
		}
		s.raw[k] = "GET " + target + " HTTP/1.1\r\nHost: example.org\r\n" + hdr + "\r\n"
	}
	return s
}

// fresh gives the execution a rule table without any history: the table is emptied (the old
// rule and its dictionaries are dropped) and the rule configuration, parsed and checked from the
// real rule file by productRuleConfLoad, is loaded again through productRuleTable.load (the
// function the reload handler calls after reading the file). The first execution of every
// work item goes through the registered reload handler and the files instead.
func (s *c53mod) fresh(t *testing.T, viaFiles bool) {
	if viaFiles {
		if _, err := s.reload(url.Values{"path": {s.nonePath}}); err != nil {
			t.Fatalf("c53: reload none: %v", err)
		}
		if _, err := s.reload(url.Values{"path": {s.rulePath}}); err != nil {
			t.Fatalf("c53: reload rules: %v", err)
		}
		return
	}
	s.m.productTable.setTable(make(map[string]*prisonRules))
	if err := s.m.productTable.load(s.conf); err != nil {
		t.Fatalf("c53: load: %v", err)
	}
}

func (s *c53mod) request(t *testing.T, key int) *bfe_basic.Request {
	hr, err := bfe_http.ReadRequest(bfe_bufio.NewReaderSize(strings.NewReader(s.raw[key]), 512), 65536)
	if err != nil {
		t.Fatalf("c53: ReadRequest: %v", err)
	}
	sess := bfe_basic.NewSession(nil)
	sess.RemoteAddr = &net.TCPAddr{IP: s.ip[key], Port: 40000 + key}
	hr.RemoteAddr = sess.RemoteAddr.String()
	req := bfe_basic.NewRequest(hr, nil, nil, sess, nil)
	req.Route.Product = c53reqProduct
	req.ClientAddr = sess.RemoteAddr
	return req
}

// arrive sends one request of the key through the real handler chain; denied = the rule's
// action was applied to this request.
func (s *c53mod) arrive(t *testing.T, key int) (denied bool) {
	req := s.request(t, key)
	ret, _ := s.found.FilterRequest(req)
	switch s.cf.action {
	case "CLOSE":
		if ret == bfe_module.BfeHandlerClose {
			return true
		}
	case "FINISH":
		if ret == bfe_module.BfeHandlerFinish {
			return true
		}
	case "REQ_HEADER_SET":
		if ret == bfe_module.BfeHandlerGoOn {
			return req.HttpRequest.Header.Get(c53markHeader) == "1"
		}
	}
	if ret != bfe_module.BfeHandlerGoOn {
		t.Fatalf("c53: unexpected handler verdict %d for action %s", ret, s.cf.action)
	}
	return false
}

// ---------------------------------------------------------------------------------------------
// reference: the statement's window automaton (non-deterministic at the silent instants)

const (
	c53Idle = iota
	c53Counting
	c53Jailed
)

type c53st struct {
	mode  int8
	start int64 // Counting: start of the period
	count int32 // Counting: requests so far in the period
	free  int64 // Jailed: release instant
}

type c53br struct {
	deny bool
	next c53st
	tag  string // what kind of step this was (outcome vocabulary)
}

type c53par struct {
	T    int32
	P, S int64 // ns
}

// c53inPeriod: the request is counted in the period of s (s.mode == c53Counting).
func c53inPeriod(s c53st, t int64, p c53par, tag string, out []c53br) []c53br {
	c := s.count + 1
	if c <= p.T {
		return append(out, c53br{false, c53st{mode: c53Counting, start: s.start, count: c}, tag})
	}
	free := s.start + p.P + p.S
	j := c53st{mode: c53Jailed, free: free}
	if t >= free {
		// jail of zero remaining length (StayPeriod 0, request at the last instant of the
		// period): "until ... has passed" is silent about this very instant
		out = append(out, c53br{true, j, "exceeding:zero-jail"})
		return append(out, c53br{false, j, "exceeding:zero-jail"})
	}
	return append(out, c53br{true, j, "exceeding"})
}

func c53fresh(t int64, p c53par, tag string, out []c53br) []c53br {
	return c53inPeriod(c53st{mode: c53Counting, start: t, count: 0}, t, p, tag, out)
}

// c53step lists every admissible (verdict, successor) for a request at instant t in state s.
func c53step(s c53st, t int64, p c53par, out []c53br) []c53br {
	switch s.mode {
	case c53Jailed:
		switch {
		case t < s.free:
			return append(out, c53br{true, s, "in-jail"})
		case t == s.free: // silent instant: still jailed, or released
			out = append(out, c53br{true, s, "at-release-instant:still-jailed"})
			return c53fresh(t, p, "at-release-instant:released", out)
		default:
			return c53fresh(t, p, "after-release", out)
		}
	case c53Counting:
		end := s.start + p.P
		switch {
		case t < end:
			return c53inPeriod(s, t, p, "in-period", out)
		case t == end: // silent instant: last instant of the old period, or a new period
			out = c53inPeriod(s, t, p, "at-period-end:old-period", out)
			return c53fresh(t, p, "at-period-end:new-period", out)
		default:
			return c53fresh(t, p, "new-period", out)
		}
	}
	return c53fresh(t, p, "first", out)
}

// ---------------------------------------------------------------------------------------------
// one execution

type c53arr struct {
	off    int64
	key    int
	denied bool
	want   string // what the reference admitted
	note   string
}

type c53keyRef struct {
	states []c53st
	lost   bool    // not judged any more in this execution (after a violation / unjudged deny)
	times  []int64 // all arrival instants of the key so far
	jailed bool    // some admissible history had the key jailed at some time
}

type c53exec struct {
	arr     []c53arr
	anyDeny bool
}

func c53addState(ss []c53st, s c53st) []c53st {
	for _, x := range ss {
		if x == s {
			return ss
		}
	}
	return append(ss, s)
}

func c53fmtTimeline(arr []c53arr) string {
	var sb strings.Builder
	for i, a := range arr {
		if i > 0 {
			sb.WriteString(" ; ")
		}
		v := "allowed"
		if a.denied {
			v = "DENIED"
		}
		fmt.Fprintf(&sb, "t=%.1fs key=%c %s (ref: %s)", float64(a.off)/1e9, 'A'+a.key, v, a.want)
		if a.note != "" {
			sb.WriteString(" <== " + a.note)
		}
	}
	return sb.String()
}

// c53run executes one timeline on the real module in a fresh bubble and judges every arrival;
// outcome counters and violation reports are only fed for arrivals with isNew(i) (arrivals not
// already counted by an earlier execution sharing the prefix).
func c53run(t *testing.T, r *vk.Run, s *c53mod, offs []int64, tl []int, id string, viaFiles bool, isNew func(i int) bool) (ex c53exec) {
	cf := s.cf
	par := c53par{T: cf.threshold, P: cf.check * int64(time.Second), S: cf.stay * int64(time.Second)}
	synctest.Test(t, func(t *testing.T) {
		s.fresh(t, viaFiles)
		t0 := time.Now()
		var ref [2]c53keyRef
		for k := range ref {
			ref[k].states = []c53st{{mode: c53Idle}}
		}
		var brs []c53br
		for i, sym := range tl {
			off, key := offs[sym/2], sym%2
			if d := off - int64(time.Since(t0)); d > 0 {
				time.Sleep(time.Duration(d))
			}
			if got := int64(time.Since(t0)); got != off {
				t.Fatalf("c53: fake clock at %d, want %d", got, off)
			}
			var denied bool
			if panicked, val := vk.Guard(func() { denied = s.arrive(t, key) }); panicked {
				r.Violation("panic:"+vk.PanicSite(val), id, fmt.Sprintf("cfg %s arrival %d of %s: %s", cf.name, i, c53fmtTimeline(ex.arr), val))
				return
			}
			if denied {
				ex.anyDeny = true
			}
			a := c53arr{off: off, key: key, denied: denied}
			kr := &ref[key]
			kr.times = append(kr.times, off)
			if kr.lost {
				a.want = "not judged"
				ex.arr = append(ex.arr, a)
				continue
			}
			// all admissible steps from all admissible states
			brs = brs[:0]
			for _, st := range kr.states {
				brs = c53step(st, off, par, brs)
			}
			canDeny, canAllow := false, false
			for _, b := range brs {
				if b.deny {
					canDeny = true
				} else {
					canAllow = true
				}
			}
			switch {
			case canDeny && canAllow:
				a.want = "either (silent instant)"
			case canDeny:
				a.want = "deny"
			default:
				a.want = "allow"
			}
			// sliding reading: more than T requests of this key within the last P (closed interval)
			sliding := 0
			for _, x := range kr.times {
				if off-x <= par.P {
					sliding++
				}
			}
			straddle := !canDeny && int32(sliding) > par.T
			if straddle {
				a.want = "allow (window automaton); not judged: >Threshold arrivals within the last CheckPeriod across a period boundary"
			}
			ok := (denied && canDeny) || (!denied && canAllow)
			if !ok && straddle {
				// denied where only the sliding reading says so: not judged, and the automaton
				// cannot follow the implementation any further for this key
				kr.lost = true
				if isNew(i) {
					r.Outcome("unjudged:straddle:denied")
				}
				ex.arr = append(ex.arr, a)
				continue
			}
			if !ok {
				// classify
				otherJailed := "other-key-never-jailed"
				if ref[1-key].jailed {
					otherJailed = "other-key-jailed-before"
				}
				var sig string
				if denied {
					// reference: must be allowed
					cls := "below-threshold"
					for _, b := range brs {
						if strings.Contains(b.tag, "after-release") {
							cls = "after-release"
						} else if strings.Contains(b.tag, "new-period") && cls != "after-release" {
							cls = "new-period"
						}
					}
					if !kr.jailed {
						sig = "never-denied-below-threshold:" + cls + ":key-never-jailed:" + otherJailed + ":denied"
					} else {
						sig = "never-denied-below-threshold:" + cls + ":key-jailed-before:" + otherJailed + ":denied"
					}
				} else {
					// reference: must be denied
					cls := "in-jail"
					for _, b := range brs {
						if strings.HasPrefix(b.tag, "exceeding") {
							cls = "exceeding-request"
						}
					}
					sig = "denied-until-release:" + cls + ":" + otherJailed + ":allowed"
				}
				a.note = "VIOLATION " + sig
				ex.arr = append(ex.arr, a)
				kr.lost = true
				if !isNew(i) {
					continue // already reported by the execution that first reached this prefix
				}
				r.Violation(sig, id, fmt.Sprintf("cfg %s (Threshold %d, CheckPeriod %ds, StayPeriod %ds, key by %s, action %s): %s",
					cf.name, cf.threshold, cf.check, cf.stay, cf.sign, cf.action, c53fmtTimeline(ex.arr)))
				continue
			}
			// keep the successors consistent with what the implementation did
			next := kr.states[:0:0]
			tag := ""
			for _, b := range brs {
				if b.deny == denied {
					next = c53addState(next, b.next)
					if tag == "" {
						tag = b.tag
					} else if tag != b.tag {
						tag = "several-admissible-histories"
					}
					if b.next.mode == c53Jailed {
						kr.jailed = true
					}
				}
			}
			kr.states = next
			if isNew(i) {
				switch {
				case straddle:
					r.Outcome("unjudged:straddle:allowed")
				case canDeny && canAllow:
					if denied {
						r.Outcome("either-admissible:denied")
					} else {
						r.Outcome("either-admissible:allowed")
					}
				case denied:
					r.Outcome("deny:" + tag)
				default:
					r.Outcome("allow:" + tag)
				}
			}
			ex.arr = append(ex.arr, a)
		}
	})
	return ex
}

// ---------------------------------------------------------------------------------------------
// enumeration

func TestVerifC53(t *testing.T) {
	r := vk.Start(t, "C53")
	defer r.Finish()

	dir := os.Getenv("VERIF_SCRATCH")
	if dir == "" {
		dir = t.TempDir()
	} else {
		os.RemoveAll(dir)
		if err := os.MkdirAll(dir, 0o755); err != nil {
			t.Fatalf("c53: %v", err)
		}
		defer os.RemoveAll(dir)
	}

	thorough := r.Thorough()
	offs := c53offsets(thorough)
	cfgs := c53configs(thorough)
	nsym := 2 * len(offs)
	r.Set("bounds", fmt.Sprintf("per configuration: all timelines of exactly <depth> arrivals (all shorter ones as prefixes) over %d offsets x keys {A,B}, offsets non-decreasing, repeats allowed; %d configurations", len(offs), len(cfgs)))
	var names []string
	for _, c := range cfgs {
		names = append(names, fmt.Sprintf("%s depth=%d", c.name, c.depth))
	}
	r.Set("configurations", names)
	offS := make([]float64, len(offs))
	for i, o := range offs {
		offS[i] = float64(o) / 1e9
	}
	r.Set("offsets_s", offS)

	item := 0
	stop := false
	samples := 0
	for _, cf := range cfgs {
		var mod *c53mod // built lazily: only when this shard owns an item of the configuration
		N := cf.depth
		firstItemOfCfg := true
		for a := 0; a < nsym && !stop; a++ {
			for b := (a / 2) * 2; b < nsym && !stop; b++ {
				item++
				rootHere := firstItemOfCfg
				firstItemOfCfg = false
				if !r.Mine(item) {
					continue
				}
				if mod == nil {
					mod = c53setup(t, dir, cf)
				}
				firstB := b == (a/2)*2
				tl := make([]int, N)
				tl[0], tl[1] = a, b
				prev := make([]int, N)
				firstLeaf := true
				var rec func(d int)
				rec = func(d int) {
					if stop {
						return
					}
					if d < N {
						for s := (tl[d-1] / 2) * 2; s < nsym; s++ {
							tl[d] = s
							rec(d + 1)
						}
						return
					}
					if r.Expired("timelines") {
						stop = true
						return
					}
					mkid := func() string { return "cfg=" + cf.name + "|tl=" + vk.IntsString(tl) }
					if !r.CaseN(mkid) {
						return
					}
					id := mkid
					common := 0
					if !firstLeaf {
						for common < N && prev[common] == tl[common] {
							common++
						}
					}
					fl := firstLeaf
					isNew := func(i int) bool {
						if r.Replaying() {
							return true
						}
						switch {
						case i >= 2:
							return i >= common
						case i == 1:
							return fl
						default:
							return fl && firstB
						}
					}
					ex := c53run(t, r, mod, offs, tl, id(), fl || r.Replaying(), isNew)
					nNew := int64(0)
					for i := 0; i < N; i++ {
						if isNew(i) {
							nNew++
						}
					}
					r.Transitions(nNew)
					r.States(nNew)
					if fl && rootHere {
						r.States(1) // the empty timeline of this configuration
					}
					if ex.anyDeny {
						r.NontrivialN(1)
					}
					if ex.anyDeny && len(ex.arr) == N && samples < 6 && common <= 2 {
						samples++
						r.Sample(map[string]string{"cfg": cf.name, "timeline": c53fmtTimeline(ex.arr)})
					}
					r.Traces(1)
					copy(prev, tl)
					firstLeaf = false
				}
				rec(2)
			}
		}
	}
}
