//go:build verif

package bal_gslb

// Read-only views for the C09 verification harness (no locks, see bal_slb/c09 accessor).

import "github.com/bfenetworks/bfe/bfe_balance/bal_slb"

// C09SubView is the private state of one SubCluster.
type C09SubView struct {
	Name   string
	Type   int
	Weight int
	RR     *bal_slb.BalanceRR
}

// C09Each visits the sub-cluster list in list order.
//
//go:norace
func (bal *BalanceGslb) C09Each(f func(s C09SubView)) {
	for _, s := range bal.subClusters {
		f(C09SubView{Name: s.Name, Type: s.sType, Weight: s.weight, RR: s.backends})
	}
}

// C09Scalars returns the scalar fields of the BalanceGslb.
//
//go:norace
func (bal *BalanceGslb) C09Scalars() (name string, total int, single bool, avail, retryMax, crossRetry int) {
	return bal.name, bal.totalWeight, bal.single, bal.avail, bal.retryMax, bal.crossRetry
}
