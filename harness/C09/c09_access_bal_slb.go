//go:build verif

package bal_slb

// Read-only views (plus one canonical-order seam) for the C09 verification harness. None of the
// functions takes a lock: they are called either at quiescence or, under the controlled
// scheduler, by the single running thread between two scheduling points.

import (
	"sort"

	"github.com/bfenetworks/bfe/bfe_balance/backend"
)

// C09BackendView is the private state of one BackendRR.
type C09BackendView struct {
	B           *backend.BfeBackend
	Weight      int
	Current     int
	InSlowStart bool
}

// C09Each visits the backend list in list order.
//
//go:norace
func (brr *BalanceRR) C09Each(f func(i int, v C09BackendView)) {
	for i, b := range brr.backends {
		f(i, C09BackendView{B: b.backend, Weight: b.weight, Current: b.current, InSlowStart: b.inSlowStart})
	}
}

// C09Scalars returns the scalar fields of the BalanceRR.
//
//go:norace
func (brr *BalanceRR) C09Scalars() (next int, sorted bool, ssNum, ssTime int) {
	return brr.next, brr.sorted, brr.slowStartNum, brr.slowStartTime
}

// C09SortCanonical fixes the list order that BalanceRR.Update leaves to Go's map iteration
// order (new backends are appended while ranging over a map): stable sort by (AddrInfo, Name).
//
//go:norace
func (brr *BalanceRR) C09SortCanonical() {
	sort.SliceStable(brr.backends, func(i, j int) bool {
		a, b := brr.backends[i].backend, brr.backends[j].backend
		if a.AddrInfo != b.AddrInfo {
			return a.AddrInfo < b.AddrInfo
		}
		return a.Name < b.Name
	})
}
