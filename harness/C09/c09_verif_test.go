//go:build verif

package bfe_balance

// C09 — balancer reload keeps surviving state and releases removed targets exactly once.
//
// Part A (engine E3, explicit-state BFS over histories, vk.BFS): the real BalTable is driven by
// histories of operations over a universe of 2 clusters x 2 sub-clusters x 3 backend addresses.
// A reload operation is an *edit* of the current (gslb, cluster_table) configuration pair
// followed by the real BalTableReload; runtime operations mark a backend (SetAvail(false) plus
// counters) or call the real Balance. Every history is replayed from scratch on a fresh table
// (initialised through the real Init path: gslbInit + backendInit); the canonical state key is
// the configuration plus a dump of every private field reachable from the table.
// Oracle = boring map model written from the statement:
//   * a backend is *live* iff its cluster is in gslb and cluster_table, its sub-cluster is in the
//     cluster's gslb entry and cluster_table entry, and its address is listed there;
//   * every backend object ever seen (snapshots after every operation + every Balance result) is
//     open (CloseChan not closed) while it stands for a live backend, and closed as soon as it
//     does not (a second close panics: caught; no close at all: leak);
//   * a backend whose (name, address) persists in a persisting sub-cluster keeps avail and the
//     three counters; a backend whose address was not live before is available;
//   * Balance never returns an object that is not live in the model; every live, available,
//     positive-weight backend of a positive-weight sub-cluster is returned within K picks.
// Part B (engine E1, controlled scheduler): BalTableReload || BalTableReload/health actor/monitor
// || Lookup+Balance+conn accounting on the real code with its sync import rewritten; all
// interleavings up to the preemption bound; oracle: no panic (double close), no deadlock, no data
// race, final release invariant, final state = serial outcome, availability kept.

import (
	"fmt"
	"hash/fnv"
	"net"
	"os"
	"runtime/debug"
	"sort"
	"strconv"
	"strings"
	"testing"
	"time"

	"github.com/bfenetworks/bfe/bfe_balance/backend"
	"github.com/bfenetworks/bfe/bfe_balance/bal_gslb"
	"github.com/bfenetworks/bfe/bfe_balance/bal_slb"
	"github.com/bfenetworks/bfe/bfe_basic"
	"github.com/bfenetworks/bfe/bfe_config/bfe_cluster_conf/cluster_conf"
	"github.com/bfenetworks/bfe/bfe_config/bfe_cluster_conf/cluster_table_conf"
	"github.com/bfenetworks/bfe/bfe_config/bfe_cluster_conf/gslb_conf"
	"github.com/bfenetworks/bfe/verifkit/vk"
	"github.com/bfenetworks/bfe/verifkit/vsched"
)

// ---------------------------------------------------------------------------------------------
// configuration model

const c09NE = 4 // backend identities (address:port) per sub-cluster

// c09be: addr is the index of the (address, port) identity in c09eps.
type c09be struct{ name, addr, w int }

type c09sub struct {
	inT bool // listed in cluster_table
	gw  int  // weight in gslb, -1 = not listed in gslb
	bes []c09be
}

type c09cl struct {
	inG, inT bool
	bh       bool // GSLB_BLACKHOLE: 0 listed in the gslb entry
	subs     [2]c09sub
}

type c09cfg struct{ cl [2]c09cl }

func (c c09cfg) clone() c09cfg {
	n := c
	for i := range n.cl {
		for j := range n.cl[i].subs {
			n.cl[i].subs[j].bes = append([]c09be(nil), c.cl[i].subs[j].bes...)
		}
	}
	return n
}

func (c c09cfg) String() string {
	var sb strings.Builder
	for i, cl := range c.cl {
		fmt.Fprintf(&sb, "c%d[G%v T%v bh%v", i, b2i(cl.inG), b2i(cl.inT), b2i(cl.bh))
		for j, s := range cl.subs {
			fmt.Fprintf(&sb, " s%d(T%v g%d:", j, b2i(s.inT), s.gw)
			for _, b := range s.bes {
				fmt.Fprintf(&sb, " n%d@a%d*%d", b.name, b.addr, b.w)
			}
			sb.WriteString(")")
		}
		sb.WriteString("] ")
	}
	return sb.String()
}

// appendKey is a compact injective encoding of the configuration (cache / state keys).
func (c c09cfg) appendKey(b []byte) []byte {
	for _, cl := range c.cl {
		b = append(b, byte('0'+b2i(cl.inG)+2*b2i(cl.inT)+4*b2i(cl.bh)))
		for _, s := range cl.subs {
			b = append(b, byte('0'+b2i(s.inT)), byte('1'+s.gw), byte('0'+len(s.bes)))
			for _, e := range s.bes {
				b = append(b, byte('A'+e.name), byte('0'+e.addr), byte('0'+e.w))
			}
		}
	}
	return b
}

func b2i(b bool) int {
	if b {
		return 1
	}
	return 0
}

func c09defaultSub(gw int) c09sub {
	return c09sub{inT: true, gw: gw, bes: []c09be{{0, 0, 1}, {1, 1, 1}}}
}

func c09defaultCluster() c09cl {
	return c09cl{inG: true, inT: true, subs: [2]c09sub{c09defaultSub(1), c09defaultSub(1)}}
}

// valid = what the real loaders accept (checked again with the real Check functions) plus the
// consistency assumption: gslb clusters / sub-clusters are listed in cluster_table.
func (c c09cfg) valid() bool {
	for _, cl := range c.cl {
		if cl.inG {
			if !cl.inT {
				return false
			}
			tot := 0
			for _, s := range cl.subs {
				if s.gw >= 0 && !s.inT {
					return false
				}
				if s.gw > 0 {
					tot += s.gw
				}
			}
			if tot <= 0 {
				return false
			}
		}
		if cl.inT {
			for _, s := range cl.subs {
				if !s.inT {
					continue
				}
				pos := false
				for _, b := range s.bes {
					if b.w > 0 {
						pos = true
					}
				}
				if !pos {
					return false
				}
			}
		} else {
			for _, s := range cl.subs {
				if s.inT {
					return false
				}
			}
		}
	}
	return true
}

func (c c09cfg) live(ci, si int) bool {
	cl := c.cl[ci]
	return cl.inG && cl.inT && cl.subs[si].inT && cl.subs[si].gw >= 0
}

func (s c09sub) count(addr int) (n int, name int, allPos bool) {
	allPos = true
	name = -1
	for _, b := range s.bes {
		if b.addr == addr {
			if n == 0 {
				name = b.name
			}
			n++
			if b.w <= 0 {
				allPos = false
			}
		}
	}
	return
}

var (
	c09cnames = [2]string{"c0", "c1"}
	c09snames = [2]string{"s0", "s1"}
	// backend identities: a 2 x 2 grid of (address, port). e0/e1 (the default content of a
	// sub-cluster) differ in both coordinates; e2 shares its address with e0 and its port with
	// e1, e3 shares its address with e1 and its port with e0 - so keys that collide on the
	// address-only or the port-only projection are exercised.
	c09eps = [c09NE]struct {
		ip   string
		port int
	}{{"10.0.0.1", 80}, {"10.0.0.2", 81}, {"10.0.0.1", 81}, {"10.0.0.2", 80}}
)

func c09cname(i int) string { return c09cnames[i] }
func c09sname(i int) string { return c09snames[i] }

// Address families: the two address strings of the identity grid. Addr is a free string for
// the loaders, so every spelling a file may contain is a backend address; distinct strings are
// distinct backends (no equivalence of spellings is judged).
var c09famAddrs = [][2]string{
	{"10.0.0.1", "10.0.0.2"},                 // IPv4
	{"fd00::1", "::1"},                       // IPv6 literals
	{"fd00::1", "fd00:0::1"},                 // two spellings of one IPv6 address
	{"backend-a.example", "::ffff:10.0.0.1"}, // host name, IPv4-mapped IPv6
}

var c09fam int

// c09setFamily installs the address strings of family f into the identity grid.
func c09setFamily(f int) {
	c09fam = f
	a := c09famAddrs[f]
	c09eps[0].ip, c09eps[2].ip = a[0], a[0]
	c09eps[1].ip, c09eps[3].ip = a[1], a[1]
}

func c09addr(i int) string { return c09eps[i].ip }
func c09port(i int) int    { return c09eps[i].port }
func c09addrInfo(i int) string {
	return c09eps[i].ip + ":" + strconv.Itoa(c09eps[i].port)
}
func c09bname(i int) string { return "n" + strconv.Itoa(i) }

// c09epIdx maps a real backend object to its identity in the grid (-1: not in the universe).
func c09epIdx(b *backend.BfeBackend) int {
	for i := 0; i < c09NE; i++ {
		if c09eps[i].ip == b.Addr && c09eps[i].port == b.Port {
			return i
		}
	}
	return -1
}

type c09conf struct {
	g  gslb_conf.GslbConf
	tb cluster_table_conf.ClusterTableConf
}

// the real code only reads configuration objects, so one built (and checked) instance per
// distinct configuration is shared by all histories (Part A only; never across threads)
var c09confCache = map[string]*c09conf{}

func (c c09cfg) cached() *c09conf {
	k := string(c.appendKey([]byte{byte('0' + c09fam)}))
	if v, ok := c09confCache[k]; ok {
		return v
	}
	g, tb := c.build(0)
	if err := gslb_conf.GslbConfCheck(g); err != nil {
		panic("c09: harness generated an invalid gslb conf: " + err.Error())
	}
	if err := cluster_table_conf.ClusterTableConfCheck(tb); err != nil {
		panic("c09: harness generated an invalid cluster table: " + err.Error())
	}
	v := &c09conf{g, tb}
	c09confCache[k] = v
	return v
}

func (c c09cfg) build(ver int) (gslb_conf.GslbConf, cluster_table_conf.ClusterTableConf) {
	clusters := gslb_conf.GslbClustersConf{}
	all := cluster_table_conf.AllClusterBackend{}
	for ci, cl := range c.cl {
		if cl.inG {
			g := gslb_conf.GslbClusterConf{}
			if cl.bh {
				g["GSLB_BLACKHOLE"] = 0
			}
			for si, s := range cl.subs {
				if s.gw >= 0 {
					g[c09sname(si)] = s.gw
				}
			}
			clusters[c09cname(ci)] = g
		}
		if cl.inT {
			cb := cluster_table_conf.ClusterBackend{}
			for si, s := range cl.subs {
				if !s.inT {
					continue
				}
				var list cluster_table_conf.SubClusterBackend
				for _, b := range s.bes {
					name, addr, port, w := c09bname(b.name), c09addr(b.addr), c09port(b.addr), b.w
					list = append(list, &cluster_table_conf.BackendConf{Name: &name, Addr: &addr, Port: &port, Weight: &w})
				}
				cb[c09sname(si)] = list
			}
			all[c09cname(ci)] = cb
		}
	}
	host, ts, v := "gslb-sch", "ts"+strconv.Itoa(ver), "v"+strconv.Itoa(ver)
	return gslb_conf.GslbConf{Clusters: &clusters, Hostname: &host, Ts: &ts},
		cluster_table_conf.ClusterTableConf{Version: &v, Config: &all}
}

// ---------------------------------------------------------------------------------------------
// operations

type c09op struct {
	kind    string
	c, s, a int
}

func (o c09op) String() string { return fmt.Sprintf("%s(%d,%d,%d)", o.kind, o.c, o.s, o.a) }

// c09dupAllowed: does the real cluster_table check accept two entries with the same addr:port
// in one sub-cluster? (The alphabet follows the loaders: duplicate-address operations and the
// duplicate entry of the second root exist only if a loaded file can contain them.)
var c09dupAllowed = func() bool {
	c := c09cfg{cl: [2]c09cl{c09defaultCluster(), {subs: [2]c09sub{{gw: -1}, {gw: -1}}}}}
	c.cl[0].subs[0].bes = []c09be{{0, 0, 1}, {20, 0, 1}}
	_, tb := c.build(0)
	return cluster_table_conf.ClusterTableConfCheck(tb) == nil
}()

// c09ops returns the alphabet: "full" = every operation on both clusters; "lean" = every
// operation on cluster c0, a reduced set on c1; "core" = every operation on sub-cluster c0/s0,
// structural operations only elsewhere (for the deepest pass).
func c09ops(alpha string) []c09op {
	if alpha == "core" {
		var ops []c09op
		for _, o := range c09ops("lean") {
			switch {
			case o.kind == "same", o.c == 0 && o.s == 0:
				ops = append(ops, o)
			case o.c == 0 && (o.kind == "gtog" || o.kind == "stog" || o.kind == "tog" && o.a == 0):
				ops = append(ops, o)
			case o.c == 1 && (o.kind == "cgtog" || o.kind == "ctog"):
				ops = append(ops, o)
			}
		}
		return ops
	}
	full := alpha == "full"
	var ops []c09op
	ops = append(ops, c09op{"same", 0, 0, 0})
	for c := 0; c < 2; c++ {
		rich := full || c == 0
		for s := 0; s < 2; s++ {
			for a := 0; a < c09NE; a++ {
				if rich || a == 0 || a == 2 {
					ops = append(ops, c09op{"tog", c, s, a})
				}
			}
			if rich {
				ops = append(ops, c09op{"wt", c, s, 0}, c09op{"ren", c, s, 0}, c09op{"ren", c, s, 2}, c09op{"dup", c, s, 0},
					c09op{"mv", c, s, 0}, c09op{"mv", c, s, 1})
				if full {
					ops = append(ops, c09op{"wt", c, s, 1})
				}
			}
			ops = append(ops, c09op{"gtog", c, s, 0}, c09op{"stog", c, s, 0})
			if rich {
				ops = append(ops, c09op{"gw0", c, s, 0})
			}
			ops = append(ops, c09op{"mark", c, s, 0})
			if rich {
				ops = append(ops, c09op{"mark", c, s, 1})
			}
		}
		ops = append(ops, c09op{"cgtog", c, 0, 0}, c09op{"ctog", c, 0, 0})
		if rich {
			ops = append(ops, c09op{"bh", c, 0, 0})
		}
		ops = append(ops, c09op{"bal", c, 0, 0}, c09op{"bal", c, 0, 1})
	}
	return ops
}

// c09edit applies a configuration edit; ok=false when the edit is not enabled or the result is
// not a valid configuration.
func c09edit(cfg c09cfg, o c09op) (c09cfg, bool) {
	n := cfg.clone()
	cl := &n.cl[o.c]
	sub := &cl.subs[o.s]
	find := func(addr int) int {
		for i, b := range sub.bes {
			if b.addr == addr {
				return i
			}
		}
		return -1
	}
	switch o.kind {
	case "same":
	case "tog":
		if !cl.inT || !sub.inT {
			return n, false
		}
		if find(o.a) >= 0 {
			var keep []c09be
			for _, b := range sub.bes {
				if b.addr != o.a {
					keep = append(keep, b)
				}
			}
			sub.bes = keep
		} else {
			sub.bes = append(sub.bes, c09be{o.a, o.a, 1})
		}
	case "wt":
		i := find(o.a)
		if !cl.inT || !sub.inT || i < 0 {
			return n, false
		}
		sub.bes[i].w = map[int]int{1: 2, 2: 0, 0: 1}[sub.bes[i].w]
	case "ren":
		i := find(o.a)
		if !cl.inT || !sub.inT || i < 0 {
			return n, false
		}
		if sub.bes[i].name >= 20 {
			return n, false
		}
		if o.a == 2 { // the entry at e2 takes / gives back the default name of the entry at e0 (equal names)
			sub.bes[i].name = 2 - sub.bes[i].name
			if sub.bes[i].name != 0 && sub.bes[i].name != 2 {
				return n, false
			}
		} else {
			sub.bes[i].name = (sub.bes[i].name + 10) % 20
		}
	case "dup":
		if !cl.inT || !sub.inT || !c09dupAllowed {
			return n, false
		}
		di := -1
		for i, b := range sub.bes {
			if b.name == 20+o.a {
				di = i
			}
		}
		if di >= 0 {
			sub.bes = append(sub.bes[:di:di], sub.bes[di+1:]...)
		} else {
			if find(o.a) < 0 {
				return n, false
			}
			sub.bes = append(sub.bes, c09be{20 + o.a, o.a, 1})
		}
	case "mv": // the entry named n0/n10 changes its identity (name persists, address or port does not)
		if !cl.inT || !sub.inT {
			return n, false
		}
		i := -1
		for j, b := range sub.bes {
			if b.name == 0 || b.name == 10 {
				i = j
			}
		}
		if i < 0 {
			return n, false
		}
		// a=0: e0 <-> e2 (same address, other port); a=1: e0 <-> e3 (other address, same port)
		alt := 2 + o.a
		to := 0
		switch sub.bes[i].addr {
		case 0:
			to = alt
		case alt:
			to = 0
		default:
			return n, false
		}
		if find(to) >= 0 {
			return n, false
		}
		if cnt, _, _ := sub.count(sub.bes[i].addr); cnt != 1 {
			return n, false
		}
		sub.bes[i].addr = to
	case "gtog":
		if !cl.inT || !sub.inT {
			return n, false
		}
		if sub.gw < 0 {
			sub.gw = 1
		} else {
			sub.gw = -1
		}
	case "gw0":
		if sub.gw < 0 {
			return n, false
		}
		sub.gw = 1 - sub.gw
	case "stog":
		if !cl.inT {
			return n, false
		}
		if sub.inT {
			*sub = c09sub{gw: -1}
		} else {
			*sub = c09defaultSub(1)
		}
	case "cgtog":
		if !cl.inT {
			return n, false
		}
		cl.inG = !cl.inG
	case "ctog":
		if cl.inT {
			*cl = c09cl{subs: [2]c09sub{{gw: -1}, {gw: -1}}}
		} else {
			*cl = c09defaultCluster()
		}
	case "bh":
		if !cl.inG {
			return n, false
		}
		cl.bh = !cl.bh
	default:
		return n, false
	}
	return n, n.valid()
}

// ---------------------------------------------------------------------------------------------
// world = real table + model

type c09key struct{ c, s, a int }

// c09msTab is the model state of every live backend, indexed [cluster][sub][addr].
type c09msTab [2][2][c09NE]c09ms

func (t *c09msTab) get(k c09key) *c09ms {
	if k.c < 0 || k.s < 0 || k.a < 0 {
		return nil
	}
	m := &t[k.c][k.s][k.a]
	if !m.present {
		return nil
	}
	return m
}

// each visits the present entries in canonical order.
func (t *c09msTab) each(f func(k c09key, m *c09ms)) {
	for c := 0; c < 2; c++ {
		for s := 0; s < 2; s++ {
			for a := 0; a < c09NE; a++ {
				if m := &t[c][s][a]; m.present {
					f(c09key{c, s, a}, m)
				}
			}
		}
	}
}

type c09ms struct {
	present          bool
	known            bool
	class            string // init | fresh | persist | changed
	avail            bool
	conn, fail, succ int
}

type c09obj struct {
	b      *backend.BfeBackend
	c, s   string
	weight int
}

type c09world struct {
	t      *BalTable
	cfg    c09cfg
	ms     *c09msTab
	seen   map[*backend.BfeBackend]bool
	order  []*backend.BfeBackend
	ver    int
	viol   bool
	report func(sig, detail string)
	idx    map[c09key][]*backend.BfeBackend  // in-table objects per model key (nil = stale)
	pos    map[*backend.BfeBackend][2]string // in-table objects -> (cluster, sub-cluster)
}

// index walks the table once; it stays valid until the next reload.
func (w *c09world) index() {
	if w.idx != nil {
		return
	}
	w.idx = map[c09key][]*backend.BfeBackend{}
	w.pos = map[*backend.BfeBackend][2]string{}
	c09walk(w.t, func(cn string, s bal_gslb.C09SubView, _ int, v bal_slb.C09BackendView) {
		w.pos[v.B] = [2]string{cn, s.Name}
		if !w.seen[v.B] {
			w.seen[v.B] = true
			w.order = append(w.order, v.B)
		}
		k := c09key{-1, -1, c09epIdx(v.B)}
		for i := 0; i < 2; i++ {
			if c09cname(i) == cn {
				k.c = i
			}
			if c09sname(i) == s.Name {
				k.s = i
			}
		}
		w.idx[k] = append(w.idx[k], v.B)
	})
}

var c09keys [2]net.IP // client addresses whose hash is 0 / 1 modulo 2

func c09initKeys() {
	for k := 0; k < 2; k++ {
		for i := 1; i < 255; i++ {
			ip := net.IPv4(10, 9, 0, byte(i))
			if bal_slb.GetHash([]byte(ip), 2) == k {
				c09keys[k] = ip
				break
			}
		}
		if c09keys[k] == nil {
			panic("c09: no client key found")
		}
	}
}

var c09basic = c09gslbBasic() // SetGslbBasic copies the values; the pointed-to values are never written

func c09gslbBasic() cluster_conf.GslbBasicConf {
	cross, retry := 0, 2
	strat, sticky := cluster_conf.ClientIpOnly, false
	hdr := "X"
	mode := cluster_conf.BalanceModeWrr
	return cluster_conf.GslbBasicConf{CrossRetry: &cross, RetryMax: &retry,
		HashConf: &cluster_conf.HashConf{HashStrategy: &strat, HashHeader: &hdr, SessionSticky: &sticky}, BalanceMode: &mode}
}

// c09walk visits every backend object reachable from the table, in canonical order, without locks.
//
//go:norace
func c09walk(t *BalTable, f func(cname string, sub bal_gslb.C09SubView, pos int, v bal_slb.C09BackendView)) {
	if len(t.balTable) > 2 {
		panic("c09: unexpected cluster in the table")
	}
	for _, n := range c09cnames {
		bal, ok := t.balTable[n]
		if !ok {
			continue
		}
		bal.C09Each(func(s bal_gslb.C09SubView) {
			s.RR.C09Each(func(i int, v bal_slb.C09BackendView) { f(n, s, i, v) })
		})
	}
}

// c09canon applies the canonical list order and the post-reload settings the server applies.
//
//go:norace
func c09canon(t *BalTable, setBasic bool) {
	for _, bal := range t.balTable {
		bal.C09Each(func(s bal_gslb.C09SubView) { s.RR.C09SortCanonical() })
		if setBasic {
			bal.SetGslbBasic(c09basic)
		}
	}
}

// c09releasePath names the release path of a panic stack: which of the three anchored
// mechanisms closed the channel the second time.
func c09releasePath(stack string) string {
	switch {
	case strings.Contains(stack, "(*BalanceRR).Update"):
		return "backend-update"
	case strings.Contains(stack, "(*BalanceGslb).Reload"):
		return "subcluster-reload"
	case strings.Contains(stack, "(*BalanceGslb).Release"):
		return "cluster-release"
	}
	return "other"
}

func c09closed(b *backend.BfeBackend) bool {
	select {
	case <-b.CloseChan():
		return true
	default:
		return false
	}
}

func c09newWorld(init c09cfg, useInit bool, report func(sig, detail string)) (*c09world, string) {
	w := &c09world{cfg: init.clone(), ms: &c09msTab{}, seen: map[*backend.BfeBackend]bool{}, report: report}
	w.t = NewBalTable(nil)
	cf := init.cached()
	g, tb := cf.g, cf.tb
	var perr string
	if useInit {
		// the two steps BalTable.Init performs after loading the files
		if p, val := vk.Guard(func() {
			if err := w.t.gslbInit(g); err != nil {
				perr = "gslbInit: " + err.Error()
			}
			if err := w.t.backendInit(tb); err != nil {
				perr = "backendInit: " + err.Error()
			}
		}); p {
			perr = "panic in Init: " + val
		}
	} else {
		if p, val := vk.Guard(func() {
			if err := w.t.BalTableReload(g, tb); err != nil {
				perr = "BalTableReload: " + err.Error()
			}
		}); p {
			perr = "panic in first reload: " + val
		}
	}
	if perr != "" {
		return w, perr
	}
	c09canon(w.t, true)
	w.snapshot()
	for ci := range w.cfg.cl {
		for si := range w.cfg.cl[ci].subs {
			if !w.cfg.live(ci, si) {
				continue
			}
			for a := 0; a < c09NE; a++ {
				if n, _, _ := w.cfg.cl[ci].subs[si].count(a); n > 0 {
					w.ms[ci][si][a] = c09ms{present: true, class: "init"}
				}
			}
		}
	}
	w.adopt()
	return w, ""
}

func (w *c09world) snapshot() {
	w.idx = nil
	w.index()
}

// objects returns the in-table objects standing for (c,s,a).
func (w *c09world) objects(k c09key) []*backend.BfeBackend {
	w.index()
	return w.idx[k]
}

// adopt fills the model state of entries the statement does not constrain from the real object;
// a backend that was not live before must be available.
func (w *c09world) adopt() {
	w.ms.each(func(k c09key, m *c09ms) {
		if m.known {
			return
		}
		objs := w.objects(k)
		if len(objs) != 1 {
			return
		}
		b := objs[0]
		if m.class == "fresh" && !b.Avail() {
			w.violation("add:not-available", fmt.Sprintf("backend %v was not live before the reload but its object is unavailable after it", k))
		}
		m.known, m.avail, m.conn, m.fail, m.succ = true, b.Avail(), b.ConnNum(), b.FailNum(), b.SuccNum()
	})
}

func (w *c09world) violation(sig, detail string) {
	w.viol = true
	w.report(sig, detail+" | cfg: "+w.cfg.String())
}

func (w *c09world) modelReload(n c09cfg) {
	old := w.cfg
	ms := &c09msTab{}
	for ci := range n.cl {
		for si := range n.cl[ci].subs {
			if !n.live(ci, si) {
				continue
			}
			for a := 0; a < c09NE; a++ {
				cn, nameN, _ := n.cl[ci].subs[si].count(a)
				if cn == 0 {
					continue
				}
				k := c09key{ci, si, a}
				co, nameO, _ := old.cl[ci].subs[si].count(a)
				switch {
				case !old.live(ci, si) || co == 0:
					ms[ci][si][a] = c09ms{present: true, class: "fresh"}
				case cn == 1 && co == 1 && nameN == nameO && w.ms.get(k) != nil && w.ms.get(k).known:
					m := *w.ms.get(k)
					m.class = "persist"
					ms[ci][si][a] = m
				default:
					ms[ci][si][a] = c09ms{present: true, class: "changed"}
				}
			}
		}
	}
	w.ms = ms
	w.cfg = n.clone()
}

// apply executes one operation on the real table and the model. enabled=false: not applicable
// in this state. fatal=true: the real code panicked (the table is unusable afterwards).
func (w *c09world) apply(o c09op) (enabled bool, fatal bool) {
	switch o.kind {
	case "mark":
		k := c09key{o.c, o.s, o.a}
		m := w.ms.get(k)
		if m == nil || !m.known || !m.avail || m.conn != 0 {
			return false, false
		}
		if n, _, _ := w.cfg.cl[o.c].subs[o.s].count(o.a); n != 1 {
			return false, false
		}
		objs := w.objects(k)
		if len(objs) != 1 {
			return false, false
		}
		b := objs[0]
		b.SetAvail(false)
		b.IncConnNum()
		b.AddFailNum()
		b.AddSuccNum()
		m.avail, m.conn, m.fail, m.succ = false, m.conn+1, m.fail+1, m.succ+1
		return true, false
	case "bal":
		if !w.cfg.cl[o.c].inG {
			return false, false
		}
		if p, val := vk.Guard(func() { w.balance(o.c, o.a, nil) }); p {
			w.violation("balance:panic:"+vk.PanicSite(val), "panic in Balance: "+val)
			return true, true
		}
		return true, false
	}
	n, ok := c09edit(w.cfg, o)
	if !ok {
		return false, false
	}
	w.ver++
	cf := n.cached()
	g, tb := cf.g, cf.tb
	var rerr error
	if p, val := vk.Guard(func() { rerr = w.t.BalTableReload(g, tb) }); p {
		w.modelReload(n)
		if strings.Contains(val, "close of closed channel") {
			w.violation("release:double-close:"+c09releasePath(val), fmt.Sprintf("op %v: BalTableReload panicked: a backend was released a second time: %s", o, val))
		} else {
			w.violation("reload:panic:"+vk.PanicSite(val), fmt.Sprintf("op %v: BalTableReload panicked: %s", o, val))
		}
		return true, true
	}
	w.modelReload(n)
	if rerr != nil {
		w.violation("reload:error:"+o.kind, fmt.Sprintf("op %v: BalTableReload of a valid, consistent configuration returned %v", o, rerr))
	}
	c09canon(w.t, true)
	w.snapshot()
	w.adopt()
	return true, false
}

// balance calls the real Lookup + Balance with client key k and judges the returned object.
func (w *c09world) balance(c, k int, got map[*backend.BfeBackend]bool) {
	bal, err := w.t.Lookup(c09cname(c))
	if err != nil {
		w.violation("select:cluster-missing", fmt.Sprintf("cluster c%d is configured but Lookup fails: %v", c, err))
		return
	}
	req := &bfe_basic.Request{ClientAddr: &net.TCPAddr{IP: c09keys[k], Port: 1}}
	b, err := bal.Balance(req)
	if err != nil || b == nil {
		return
	}
	if !w.seen[b] {
		w.seen[b] = true
		w.order = append(w.order, b)
	}
	if got != nil {
		got[b] = true
	}
	if why := w.notLive(c09cname(c), b.SubCluster, b); why != "" {
		w.violation("select:removed-backend-selected:"+why, fmt.Sprintf("Balance(c%d,key%d) returned %s/%s (%s) which is not part of the configuration any more: removed %s", c, k, b.SubCluster, b.Name, b.AddrInfo, why))
	} else if c09closed(b) {
		w.violation("select:released-backend-selected", fmt.Sprintf("Balance(c%d,key%d) returned %s/%s (%s) whose close channel is closed", c, k, b.SubCluster, b.Name, b.AddrInfo))
	}
}

// notLive returns "" if (cluster, sub, b.Addr) is live in the model, else the removal level.
func (w *c09world) notLive(cn, sn string, b *backend.BfeBackend) string {
	ci, si := -1, -1
	for i := 0; i < 2; i++ {
		if c09cname(i) == cn {
			ci = i
		}
		if c09sname(i) == sn {
			si = i
		}
	}
	if ci < 0 || !w.cfg.cl[ci].inG {
		return "cluster"
	}
	if si < 0 || !w.cfg.live(ci, si) {
		return "subcluster"
	}
	a := c09epIdx(b)
	if a < 0 {
		return "backend"
	}
	if n, _, _ := w.cfg.cl[ci].subs[si].count(a); n == 0 {
		return "backend"
	}
	return ""
}

// key is the canonical state: configuration + every private field reachable from the table.
func (w *c09world) key() string {
	b := make([]byte, 0, 1024)
	b = w.cfg.appendKey(b)
	b = append(b, '#')
	num := func(v int) {
		b = strconv.AppendInt(b, int64(v), 10)
		b = append(b, ',')
	}
	for _, n := range c09cnames {
		bal, ok := w.t.balTable[n]
		if !ok {
			continue
		}
		bn, tot, single, avail, rm, cr := bal.C09Scalars()
		if !single {
			avail = -1 // only meaningful while single
		}
		b = append(b, n...)
		b = append(b, '/')
		b = append(b, bn...)
		b = append(b, ':')
		num(tot)
		num(b2i(single))
		num(avail)
		num(rm)
		num(cr)
		b = append(b, '{')
		bal.C09Each(func(s bal_gslb.C09SubView) {
			next, sorted, ssn, sst := s.RR.C09Scalars()
			b = append(b, s.Name...)
			b = append(b, ':')
			num(s.Type)
			num(s.Weight)
			num(next)
			num(b2i(sorted))
			num(ssn)
			num(sst)
			b = append(b, '[')
			s.RR.C09Each(func(_ int, v bal_slb.C09BackendView) {
				o := v.B
				b = append(b, o.Name...)
				b = append(b, '@')
				b = append(b, o.AddrInfo...)
				b = append(b, '/')
				b = append(b, o.SubCluster...)
				b = append(b, ' ')
				num(v.Weight)
				num(v.Current)
				num(b2i(v.InSlowStart))
				num(b2i(o.Avail()))
				num(b2i(o.GetRestart()))
				num(o.ConnNum())
				num(o.FailNum())
				num(o.SuccNum())
				num(b2i(c09closed(o)))
				b = append(b, ';')
			})
			b = append(b, ']')
		})
		b = append(b, '}')
	}
	b = append(b, '#')
	for c := 0; c < 2; c++ {
		for s := 0; s < 2; s++ {
			for a := 0; a < c09NE; a++ {
				if m := w.ms.get(c09key{c, s, a}); m != nil {
					b = append(b, byte('0'+c), byte('0'+s), byte('0'+a), byte('0'+b2i(m.known)))
				}
			}
		}
	}
	return string(b)
}

// checkState judges the release invariant and the kept state (non-destructive).
func (w *c09world) checkState() {
	w.index()
	inTable := w.pos
	for _, b := range w.order {
		pos, in := inTable[b]
		closed := c09closed(b)
		level := "backend"
		liveNow := false
		if in {
			level = w.notLive(pos[0], pos[1], b)
			liveNow = level == ""
		} else {
			// not reachable any more: say at which level it disappeared (best effort, for the signature)
			level = "unreachable"
		}
		switch {
		case liveNow && closed:
			w.violation("release:live-backend-released", fmt.Sprintf("backend %s/%s/%s (%s) is configured and in use but its close channel is closed (health check told to stop)", pos[0], pos[1], b.Name, b.AddrInfo))
		case !liveNow && !closed && in:
			w.violation("release:removed-not-released:still-in-table:"+level, fmt.Sprintf("backend %s/%s/%s (%s) was removed from the configuration (%s level) but is still in the table and not released", pos[0], pos[1], b.Name, b.AddrInfo, level))
		case !liveNow && !closed:
			w.violation("release:removed-not-released:leaked", fmt.Sprintf("backend object %s/%s (%s) is no longer reachable from the table and was never released (close channel open)", b.SubCluster, b.Name, b.AddrInfo))
		}
	}
	w.ms.each(func(k c09key, m *c09ms) {
		if !m.known || m.class != "persist" {
			return
		}
		objs := w.objects(k)
		if len(objs) != 1 {
			if len(objs) == 0 {
				w.violation("keep:persisting-backend-gone", fmt.Sprintf("backend %v persists in the configuration but no object stands for it", k))
			}
			return
		}
		b := objs[0]
		if b.Avail() != m.avail {
			w.violation(fmt.Sprintf("keep:avail-changed:%v->%v", m.avail, b.Avail()), fmt.Sprintf("backend %v (name and address persist) had avail=%v before the reload and %v after", k, m.avail, b.Avail()))
		}
		if b.ConnNum() != m.conn || b.FailNum() != m.fail || b.SuccNum() != m.succ {
			w.violation("keep:counters-changed", fmt.Sprintf("backend %v (name and address persist): conn/fail/succ %d/%d/%d before, %d/%d/%d after", k, m.conn, m.fail, m.succ, b.ConnNum(), b.FailNum(), b.SuccNum()))
		}
	})
}

const c09K = 32 // picks per (cluster, key) in the selectability probe

// probe (destructive: changes WRR credit) judges selection: nothing removed is returned, every
// live available positive-weight backend of a positive-weight sub-cluster is returned.
func (w *c09world) probe() (picks int) {
	for ci := range w.cfg.cl {
		if !w.cfg.cl[ci].inG {
			continue
		}
		type exp struct {
			k   c09key
			obj map[*backend.BfeBackend]bool
		}
		var want []exp
		for si := range w.cfg.cl[ci].subs {
			s := w.cfg.cl[ci].subs[si]
			if !w.cfg.live(ci, si) || s.gw <= 0 {
				continue
			}
			for a := 0; a < c09NE; a++ {
				n, _, allPos := s.count(a)
				if n == 0 || !allPos {
					continue
				}
				k := c09key{ci, si, a}
				e := exp{k: k, obj: map[*backend.BfeBackend]bool{}}
				objs := w.objects(k)
				if len(objs) == 0 {
					cls := "nil"
					if m := w.ms.get(k); m != nil {
						cls = m.class
					}
					w.violation("select:not-selectable:no-object:"+cls, fmt.Sprintf("backend %v is configured (%s) but no object stands for it in the table", k, cls))
					return
				}
				for _, b := range objs {
					if b.Avail() {
						e.obj[b] = true
					}
				}
				if len(e.obj) > 0 {
					want = append(want, e)
				}
			}
		}
		got := map[*backend.BfeBackend]bool{}
		done := func() bool {
			for _, e := range want {
				hit := false
				for b := range e.obj {
					if got[b] {
						hit = true
					}
				}
				if !hit {
					return false
				}
			}
			return true
		}
		for k := 0; k < 2; k++ {
			for i := 0; i < c09K; i++ {
				w.balance(ci, k, got)
				picks++
				if w.viol {
					return
				}
				if i >= 3 && done() {
					break
				}
			}
		}
		for _, e := range want {
			hit := false
			for b := range e.obj {
				if got[b] {
					hit = true
				}
			}
			if !hit {
				cls := "nil"
				if m := w.ms.get(e.k); m != nil {
					cls = m.class
				}
				w.violation("select:not-selectable:"+cls, fmt.Sprintf("backend %v (%s, available, positive weight, sub-cluster gslb weight > 0) was never returned by %d Balance calls per client key", e.k, cls, c09K))
			}
		}
	}
	return
}

// ---------------------------------------------------------------------------------------------
// Part A driver

type c09root struct {
	name    string
	cfg     c09cfg
	useInit bool
}

func c09roots() []c09root {
	base := c09cfg{cl: [2]c09cl{c09defaultCluster(), c09defaultCluster()}}
	dup := base.clone()
	dup.cl[0].bh = true
	if c09dupAllowed {
		dup.cl[0].subs[0].bes = []c09be{{0, 0, 1}, {20, 0, 1}, {1, 1, 1}}
	} else {
		dup.cl[0].subs[0].bes = []c09be{{0, 0, 2}, {1, 1, 0}, {2, 2, 1}}
	}
	dup.cl[1].subs[1] = c09sub{inT: true, gw: -1, bes: []c09be{{0, 0, 1}}}
	empty := c09cfg{cl: [2]c09cl{{subs: [2]c09sub{{gw: -1}, {gw: -1}}}, {subs: [2]c09sub{{gw: -1}, {gw: -1}}}}}
	return []c09root{{"init-base", base, true}, {"init-var", dup, true}, {"empty", empty, false}}
}

func c09hash(s string) int {
	h := fnv.New32a()
	h.Write([]byte(s))
	return int(h.Sum32() & 0x7fffffff)
}

type c09bfsCtx struct {
	r       *vk.Run
	root    c09root
	rootIdx int
	alpha   string
	ops     []c09op
	depth   int
	checked map[string]bool
	force   bool // replay: always own
	runs    int64
	fam     int
}

func (x *c09bfsCtx) id(hist []int) string {
	return fmt.Sprintf("bfs|fam=%d|root=%d|alpha=%s|ops=%s", x.fam, x.rootIdx, x.alpha, vk.IntsString(hist))
}

// run replays hist on a fresh world. Only the owning shard judges (and counts) the final state.
func (x *c09bfsCtx) run(hist []int) (string, bool) {
	r := x.r
	ph := 17 + x.rootIdx + 5*x.fam
	if len(hist) > 0 {
		for _, o := range hist[:len(hist)-1] {
			ph = (ph*131 + o + 1) & 0x3fffffff
		}
	}
	owner := x.force || r.Mine(ph)
	if len(hist) == x.depth && !owner {
		return "", false
	}
	// cheap pre-pass on the configuration alone: prune histories whose edits are not enabled
	pre := x.root.cfg
	for _, oi := range hist {
		if o := x.ops[oi]; o.kind != "mark" && o.kind != "bal" {
			var ok bool
			if pre, ok = c09edit(pre, o); !ok {
				return "", false
			}
		}
	}
	id := ""
	if owner {
		id = x.id(hist)
	}
	x.runs++
	var first struct{ sig, detail string }
	w, perr := c09newWorld(x.root.cfg, x.root.useInit, func(sig, detail string) {
		if first.sig == "" {
			first.sig, first.detail = sig, detail
		}
	})
	if perr != "" {
		if owner && r.Case(id) {
			r.Violation("init:"+strings.SplitN(perr, ":", 2)[0], id, perr)
		}
		return "", false
	}
	histStr := func() string {
		var names []string
		for _, oi := range hist {
			names = append(names, x.ops[oi].String())
		}
		return strings.Join(names, " ")
	}
	for i, oi := range hist {
		o := x.ops[oi]
		en, fatal := w.apply(o)
		if !en {
			return "", false
		}
		if fatal || (w.viol && i < len(hist)-1) {
			// a violating prefix is reported by the history that ends there; do not extend it
			if i == len(hist)-1 && owner && r.Case(id) {
				r.Violation(first.sig, id, "history "+histStr()+": "+first.detail)
				r.Outcome("violation")
			}
			return "", false
		}
	}
	key := w.key()
	if !owner {
		return key, true
	}
	if !r.Case(id) {
		return key, true
	}
	r.Transitions(1)
	w.checkState()
	isNew := !x.checked[key]
	if isNew {
		x.checked[key] = true
		r.States(1)
		if !w.viol {
			picks := w.probe()
			r.Add("sum_probe_balance_calls", int64(picks))
		}
	}
	if len(hist) > 0 {
		last := x.ops[hist[len(hist)-1]]
		r.Outcome("op:" + last.kind)
		if isNew && len(hist) >= 2 {
			r.NontrivialN(1)
		}
	}
	released, open := 0, 0
	for _, b := range w.order {
		if c09closed(b) {
			released++
		} else {
			open++
		}
	}
	switch {
	case released == 0:
		r.Outcome("end:nothing-released")
	case open == 0:
		r.Outcome("end:everything-released")
	default:
		r.Outcome("end:some-released")
	}
	keptDown := false
	w.ms.each(func(_ c09key, m *c09ms) {
		if m.class == "persist" && m.known && !m.avail {
			keptDown = true
		}
	})
	if keptDown {
		r.Outcome("kept:unavailable-backend-persisted")
	}
	if w.viol {
		r.Violation(first.sig, id, "history "+histStr()+": "+first.detail)
		r.Outcome("violation")
		return key, false
	}
	if isNew && len(hist) == x.depth && c09hash(key)%40000 == 0 {
		r.Sample(map[string]interface{}{"root": x.root.name, "history": histStr(), "objects_seen": len(w.order), "released": released, "final_cfg": w.cfg.String()})
	}
	return key, true
}

func c09famRoots(fams, roots []int) (out [][2]int) {
	for _, f := range fams {
		for _, ri := range roots {
			out = append(out, [2]int{f, ri})
		}
	}
	return
}

func c09partA(r *vk.Run) {
	roots := c09roots()
	type pass struct {
		alpha string
		depth int
		roots []int
		fams  []int
	}
	var passes []pass
	if r.Thorough() {
		passes = []pass{{"full", 3, []int{2, 1, 0}, []int{0}}, {"full", 4, []int{2}, []int{0}}, {"core", 4, []int{1, 0}, []int{0}},
			{"full", 2, []int{2, 1, 0}, []int{1, 2, 3}}, {"lean", 3, []int{1}, []int{1, 2, 3}}, {"core", 3, []int{0}, []int{1, 2, 3}}}
	} else {
		passes = []pass{{"full", 2, []int{2, 1, 0}, []int{0}}, {"full", 3, []int{2}, []int{0}}, {"lean", 3, []int{1, 0}, []int{0}},
			{"lean", 2, []int{1, 0}, []int{1, 2, 3}}, {"core", 3, []int{1}, []int{1, 2, 3}}}
	}
	if r.Replaying() {
		rc := r.ReplayCase()
		if !strings.HasPrefix(rc, "bfs|") {
			return
		}
		var ri, fam int
		var alpha, ops string
		parts := strings.Split(rc, "|")
		if len(parts) != 5 {
			return
		}
		fam, _ = strconv.Atoi(strings.TrimPrefix(parts[1], "fam="))
		ri, _ = strconv.Atoi(strings.TrimPrefix(parts[2], "root="))
		alpha = strings.TrimPrefix(parts[3], "alpha=")
		ops = strings.TrimPrefix(parts[4], "ops=")
		hist := vk.ParseInts(ops)
		c09setFamily(fam)
		x := &c09bfsCtx{r: r, root: roots[ri], rootIdx: ri, alpha: alpha, ops: c09ops(alpha), depth: len(hist), checked: map[string]bool{}, force: true, fam: fam}
		x.run(hist)
		return
	}
	for _, ps := range passes {
		ops := c09ops(ps.alpha)
		for _, fr := range c09famRoots(ps.fams, ps.roots) {
			fam, ri := fr[0], fr[1]
			c09setFamily(fam)
			name := fmt.Sprintf("fam%d/%s@%d/%s", fam, ps.alpha, ps.depth, roots[ri].name)
			x := &c09bfsCtx{r: r, root: roots[ri], rootIdx: ri, alpha: ps.alpha, ops: ops, depth: ps.depth, checked: map[string]bool{}, fam: fam}
			st, tr, d, closed := vk.BFS(len(ops), ps.depth, x.run, func() bool { return r.Expired("bfs " + name) })
			r.Add("sum_replays_executed", x.runs)
			si, _ := r.Shard()
			if si == 0 {
				r.Set("bfs_"+name, fmt.Sprintf("ops=%d depth=%d frontier-states(shard0 view, last level partial)=%d transitions=%d closed=%v", len(ops), d, st, tr, closed))
			}
		}
	}
}

// ---------------------------------------------------------------------------------------------
// Part B: controlled scheduler

type c09scn struct {
	name    string
	reloads []c09cfg // one thread each
	avail   bool     // health actor: SetAvail(false) on c0/s0/a0
	monitor bool     // GetState + GetVersions
	balC    int
	balK    int
	fail    bool // the request thread reports a failure (OnFail) instead of success
	fam     int  // address family of the identity grid
}

// Every Part B configuration lists at most one cluster in gslb: BalTableReload ranges over Go
// maps keyed by cluster name, and with two entries the order of its lock operations would be a
// source of nondeterminism the scheduler does not own.
func c09e1init() c09cfg {
	c := c09cfg{cl: [2]c09cl{c09defaultCluster(), c09defaultCluster()}}
	c.cl[0].subs[1].bes = []c09be{{0, 0, 1}}
	c.cl[1].inG = false
	c.cl[1].subs[0].bes = []c09be{{0, 0, 1}}
	c.cl[1].subs[1] = c09sub{gw: -1}
	return c
}

func c09e1targets() (names []string, cfgs []c09cfg) {
	base := c09e1init()
	add := func(n string, ops ...c09op) {
		c := base
		for _, o := range ops {
			var ok bool
			c, ok = c09edit(c, o)
			if !ok {
				panic("c09: bad e1 target " + n)
			}
		}
		names = append(names, n)
		cfgs = append(cfgs, c)
	}
	add("drop-cluster", c09op{"ctog", 0, 0, 0})
	add("drop-sub-gslb-only", c09op{"gtog", 0, 0, 0})
	add("remove-backend", c09op{"tog", 0, 0, 0})
	add("add-port-sibling", c09op{"tog", 0, 0, 2}) // same address as e0, other port
	add("rename+weight", c09op{"ren", 0, 0, 0}, c09op{"wt", 0, 0, 1})
	add("same")
	add("replace-cluster", c09op{"cgtog", 0, 0, 0}, c09op{"cgtog", 1, 0, 0})
	add("move-port", c09op{"mv", 0, 0, 0})
	add("add-addr-sibling", c09op{"tog", 0, 0, 3}) // same port as e0, other address
	add("move-addr", c09op{"mv", 0, 0, 1})
	return
}

type c09e1log struct {
	order []int // reload thread indexes in completion order
	got   *backend.BfeBackend
	gotOK bool
	sigs  []string // violations reported by the world (setup and final checks; never from a thread)
}

// reloaded runs in the reloading thread right after BalTableReload returned (no scheduling point
// in between, so the log order is the order in which the table lock was released).
//
//go:norace
func (l *c09e1log) reloaded(i int) { l.order = append(l.order, i) }

//go:norace
func (l *c09e1log) balanced(b *backend.BfeBackend) { l.got, l.gotOK = b, true }

func c09e1run(scn c09scn, ch *vk.Chooser) (out vsched.Outcome, w *c09world, l *c09e1log) {
	l = &c09e1log{}
	c09setFamily(scn.fam)
	w, perr := c09newWorld(c09e1init(), true, func(sig, detail string) { l.sigs = append(l.sigs, sig+" :: "+detail) })
	if perr != "" {
		panic("c09: e1 init failed: " + perr)
	}
	t := w.t
	var target *backend.BfeBackend
	if objs := w.objects(c09key{0, 0, 0}); len(objs) == 1 {
		target = objs[0]
	}
	type conf struct {
		g  gslb_conf.GslbConf
		tb cluster_table_conf.ClusterTableConf
	}
	var confs []conf
	for i, c := range scn.reloads {
		g, tb := c.build(i + 1)
		confs = append(confs, conf{g, tb})
	}
	out = vsched.Run(ch, 1500, func() {
		for i := range confs {
			i := i
			vsched.Go("R", func() {
				t.BalTableReload(confs[i].g, confs[i].tb)
				l.reloaded(i)
			})
		}
		if scn.avail && target != nil {
			vsched.Go("A", func() { target.SetAvail(false) })
		}
		if scn.monitor {
			vsched.Go("M", func() {
				t.GetState()
				t.GetVersions()
			})
		}
		if scn.balC >= 0 {
			vsched.Go("B", func() {
				bal, err := t.Lookup(c09cname(scn.balC))
				if err != nil {
					return
				}
				req := &bfe_basic.Request{ClientAddr: &net.TCPAddr{IP: c09keys[scn.balK], Port: 1}}
				b, err := bal.Balance(req)
				if err != nil || b == nil {
					return
				}
				l.balanced(b)
				b.IncConnNum()
				if scn.fail {
					b.OnFail(c09cname(scn.balC))
				} else {
					b.OnSuccess()
				}
				b.DecConnNum()
			})
		}
	})
	return
}

func c09e1check(r *vk.Run, scn c09scn, id string, out vsched.Outcome, w *c09world, l *c09e1log) {
	if out.Panic != "" {
		if strings.Contains(out.Panic, "close of closed channel") {
			r.Violation("e1:release:double-close:"+c09releasePath(out.Panic), id, "scenario "+scn.name+": thread "+out.PanicThr+" closed a backend's channel a second time: "+out.Panic)
		} else {
			r.Violation("e1:panic:"+vk.PanicSite(out.Panic), id, "scenario "+scn.name+": panic in thread "+out.PanicThr+": "+out.Panic)
		}
		return
	}
	if out.Horizon {
		r.Violation("e1:horizon", id, fmt.Sprintf("scenario %s: step bound exceeded; blocked=%v", scn.name, out.Blocked))
		return
	}
	if out.Deadlock {
		r.Violation("e1:deadlock", id, fmt.Sprintf("scenario %s: deadlock; blocked=%v", scn.name, out.Blocked))
		return
	}
	if out.Races > 0 {
		r.Violation("e1:race", id, fmt.Sprintf("scenario %s: %d data race report(s) in this interleaving (stacks in build/C09/log-*.txt)", scn.name, out.Races))
	}
	if len(l.order) != len(scn.reloads) {
		r.Violation("e1:reload-lost", id, fmt.Sprintf("scenario %s: %d of %d reloads completed", scn.name, len(l.order), len(scn.reloads)))
		return
	}
	// serial outcome: the reloads are applied to the model in completion (= lock release) order
	persisted := true
	states := []c09cfg{w.cfg}
	for _, i := range l.order {
		n := scn.reloads[i]
		co, no, _ := w.cfg.cl[0].subs[0].count(0)
		cn, nn, _ := n.cl[0].subs[0].count(0)
		if !(w.cfg.live(0, 0) && n.live(0, 0) && co == 1 && cn == 1 && no == nn) {
			persisted = false
		}
		w.modelReload(n)
		states = append(states, n)
	}
	if l.gotOK && !w.seen[l.got] {
		w.seen[l.got] = true
		w.order = append(w.order, l.got)
	}
	w.snapshot()
	w.viol = false
	w.checkStateRelease()
	// structure: the table must hold exactly the live backends of the last configuration
	want := map[string]bool{}
	for ci := range w.cfg.cl {
		for si := range w.cfg.cl[ci].subs {
			if !w.cfg.live(ci, si) {
				continue
			}
			for _, b := range w.cfg.cl[ci].subs[si].bes {
				want[c09cname(ci)+"/"+c09sname(si)+"/e"+strconv.Itoa(b.addr)] = true
			}
		}
	}
	have := map[string]bool{}
	c09walk(w.t, func(cn string, s bal_gslb.C09SubView, _ int, v bal_slb.C09BackendView) {
		have[cn+"/"+s.Name+"/e"+strconv.Itoa(c09epIdx(v.B))] = true
	})
	if fmt.Sprint(c09sorted(want)) != fmt.Sprint(c09sorted(have)) {
		w.violation("e1:final-state-not-serial", fmt.Sprintf("table holds %v, the last completed reload configured %v", c09sorted(have), c09sorted(want)))
	}
	if scn.avail && persisted {
		objs := w.objects(c09key{0, 0, 0})
		if len(objs) == 1 && objs[0].Avail() {
			w.violation("e1:keep:avail-lost", "backend c0/s0/a0 persisted through every reload and was marked unavailable concurrently, but is available at the end")
		}
	}
	if l.gotOK {
		ok := false
		for _, st := range states {
			for si := 0; si < 2; si++ {
				if c09sname(si) == l.got.SubCluster && st.live(scn.balC, si) {
					if n, _, _ := st.cl[scn.balC].subs[si].count(c09epIdx(l.got)); n > 0 {
						ok = true
					}
				}
			}
		}
		if !ok {
			w.violation("e1:select:never-configured", fmt.Sprintf("Balance returned %s/%s which is in none of the serial states", l.got.SubCluster, l.got.AddrInfo))
		}
		if l.got.ConnNum() != 0 {
			w.violation("e1:conn-count", fmt.Sprintf("connNum of the selected backend is %d after Inc/Dec", l.got.ConnNum()))
		}
	}
	for _, s := range l.sigs {
		p := strings.SplitN(s, " :: ", 2)
		r.Violation("e1:"+strings.TrimPrefix(p[0], "e1:"), id, "scenario "+scn.name+" order "+fmt.Sprint(l.order)+": "+p[1])
	}
}

func c09sorted(m map[string]bool) []string {
	var out []string
	for k := range m {
		out = append(out, k)
	}
	sort.Strings(out)
	return out
}

// checkStateRelease is the release half of checkState (used at the end of an E1 execution).
func (w *c09world) checkStateRelease() {
	saved := w.ms
	w.ms = &c09msTab{}
	w.checkState()
	w.ms = saved
}

func c09scenarios(thorough bool) []c09scn {
	names, cfgs := c09e1targets()
	var scns []c09scn
	pair := func(i, j int) {
		scns = append(scns, c09scn{name: "R(" + names[i] + ")|R(" + names[j] + ")|B", reloads: []c09cfg{cfgs[i], cfgs[j]}, balC: 0, balK: (i + j) % 2, fail: j%2 == 0})
	}
	actor := func(i int) {
		scns = append(scns, c09scn{name: "R(" + names[i] + ")|A|B", reloads: []c09cfg{cfgs[i]}, avail: true, balC: 0, balK: 0, fail: true})
	}
	monitor := func(i int) {
		scns = append(scns, c09scn{name: "R(" + names[i] + ")|M|B", reloads: []c09cfg{cfgs[i]}, monitor: true, balC: 0, balK: 1})
	}
	if !thorough {
		// 16 scenarios: one per shard
		for _, p := range [][2]int{{0, 3}, {1, 2}, {2, 3}, {3, 4}, {0, 5}, {1, 4}, {3, 3}} {
			pair(p[0], p[1])
		}
		for i := 0; i < 6; i++ {
			actor(i)
		}
		for _, i := range []int{0, 2, 3} {
			monitor(i)
		}
		return c09withFamilies(scns)
	}
	n := len(cfgs)
	for i := 0; i < n; i++ {
		for j := i; j < n; j++ {
			pair(i, j)
		}
	}
	for i := 0; i < n; i++ {
		actor(i)
		monitor(i)
	}
	for i := 0; i < n; i++ {
		scns = append(scns, c09scn{name: "R(" + names[i] + ")|R(same)|A|B", reloads: []c09cfg{cfgs[i], cfgs[5]}, avail: true, balC: 0, balK: 0})
	}
	return c09withFamilies(scns)
}

// c09withFamilies spreads the address families over the scenarios (round robin).
func c09withFamilies(scns []c09scn) []c09scn {
	for i := range scns {
		scns[i].fam = i % len(c09famAddrs)
		scns[i].name += fmt.Sprintf("|fam%d", scns[i].fam)
	}
	return scns
}

func c09partB(r *vk.Run) {
	type pass struct {
		name  string
		bound int
		scns  []c09scn
	}
	var passes []pass
	if r.Thorough() {
		all := c09scenarios(true)
		var core []c09scn
		for i, s := range c09scenarios(false) {
			if i%2 == 0 {
				core = append(core, s)
			}
		}
		passes = []pass{{"all@2", 2, all}, {"core@3", 3, core}}
	} else {
		passes = []pass{{"quick@2", 2, c09scenarios(false)}}
	}
	idx := 0
	for _, ps := range passes {
		completed := true
		for _, scn := range ps.scns {
			idx++
			name := "e1|" + ps.name + "|" + scn.name
			if r.Replaying() {
				if !strings.HasPrefix(r.ReplayCase(), name+"|trace:") {
					continue
				}
			} else if !r.Mine(idx) {
				continue
			}
			scn := scn
			orders := map[string]bool{}
			n := vk.ExploreSharded(r, name, 0, ps.bound, func(ch *vk.Chooser) {
				out, w, l := c09e1run(scn, ch)
				id := ch.CaseID(name)
				if !r.Case(id) {
					return
				}
				c09e1check(r, scn, id, out, w, l)
				r.Transitions(int64(out.Steps))
				k := fmt.Sprint(l.order, l.gotOK)
				if l.gotOK {
					k += l.got.SubCluster + "/" + l.got.AddrInfo + fmt.Sprint(c09closed(l.got))
				}
				if !orders[k] {
					orders[k] = true
					r.States(1)
				}
				if l.gotOK && c09closed(l.got) {
					// the request looked its cluster up before a reload removed the backend: linearised before it
					r.Outcome("e1:request-holds-backend-released-meanwhile")
				} else if l.gotOK {
					r.Outcome("e1:request-holds-live-backend")
				} else {
					r.Outcome("e1:request-got-no-backend")
				}
			}, func() bool { return r.Expired("e1 " + ps.name) })
			r.Traces(n)
			r.Nontrivial(name)
			r.Outcome(fmt.Sprintf("e1:%s:distinct-outcomes=%d", ps.name, len(orders)))
			if idx%7 == 0 {
				r.Sample(map[string]interface{}{"pass": ps.name, "scenario": scn.name, "interleavings": n, "distinct_outcomes": len(orders)})
			}
			if r.Expired("e1 " + ps.name) {
				completed = false
				break
			}
		}
		r.Set("e1_pass_"+ps.name, fmt.Sprintf("%d scenarios, preemption bound %d, completed=%v", len(ps.scns), ps.bound, completed))
	}
}

func TestVerifC09(t *testing.T) {
	r := vk.Start(t, "C09")
	defer r.Finish()
	debug.SetGCPercent(400) // allocation-heavy replays under the race runtime; live heap is small
	c09initKeys()
	r.Set("duplicate_addresses_accepted_by_loader", c09dupAllowed)
	r.Set("universe", "2 clusters x 2 sub-clusters (+GSLB_BLACKHOLE) x 4 backend identities on a 2x2 grid of address x port (two address strings x 80/81), address strings from 4 families: IPv4, IPv6 literals, two spellings of one IPv6 address, host name + IPv4-mapped IPv6; names n<i>/n10 (rename), n0 twice (equal names), n20 (duplicate addr:port, only if the loader accepts it); backend weights 0..2; gslb weights absent/0/1")
	part := os.Getenv("C09_PART") // debugging aid only: "A" or "B" runs one part
	t1 := time.Now()
	if part != "A" {
		c09partB(r)
	}
	r.Set("max_wall_partB_s", time.Since(t1).Seconds())
	t0 := time.Now()
	if part != "B" {
		c09partA(r)
	}
	r.Set("max_wall_partA_s", time.Since(t0).Seconds())
}
