#!/bin/bash
# Offline setup: warm the Go build cache by building every harness binary once.
set -u
cd "$(dirname "$0")"
export GOFLAGS=-mod=mod GOPROXY=off GOSUMDB=off GOTOOLCHAIN=local
mkdir -p build replay evidence
VCHECK_BUILD_JOBS=${VCHECK_BUILD_JOBS:-6} ./vcheck build || true
exit 0
